//! One simulated execution: build the workload from the tapes, run the real engine over the
//! simulated adapter under a schedule, observe.

use std::cell::RefCell;
use std::collections::{BTreeMap, BTreeSet};
use std::panic::{AssertUnwindSafe, catch_unwind};
use std::rc::Rc;
use std::sync::Arc;

use trustfall_core::frontend;
use trustfall_core::interpreter::execution::interpret_ir;
use trustfall_core::ir::{FieldValue, IndexedQuery};
use trustfall_core::schema::Schema;

use crate::adapter::{
    Event, EventCapExceeded, Fires, HarnessBug, MonitorViolation, SchedCfg, Sim, SimAdapter,
};
use crate::model::{Model, ModelResult, Row, expected_output_types};
use crate::qast::{EdgeKind, QItem, QNode, QueryAst, QueryCfg, gen_args, gen_query};
use crate::tape::{Tape, Tapes};
use crate::val::{Ty, Val, fv_render};
use crate::world::{World, gen_world};

thread_local! {
    pub static PANIC_INFO: RefCell<Option<(String, String)>> = const { RefCell::new(None) };
    /// When set (while a replay file is being rendered), every execution records its complete
    /// adapter event log here: the human-readable schedule / fault trace of the replay file.
    pub static RECORD_LOGS: RefCell<Option<Vec<Vec<String>>>> = const { RefCell::new(None) };
}

pub fn install_panic_hook() {
    std::panic::set_hook(Box::new(|info| {
        let msg = if let Some(s) = info.payload().downcast_ref::<&str>() {
            s.to_string()
        } else if let Some(s) = info.payload().downcast_ref::<String>() {
            s.clone()
        } else {
            "<non-string payload>".to_string()
        };
        let loc = info
            .location()
            .map(|l| format!("{}:{}", l.file(), l.line()))
            .unwrap_or_else(|| "<unknown>".to_string());
        PANIC_INFO.with(|p| *p.borrow_mut() = Some((msg, loc)));
    }));
}

#[derive(Clone, Debug)]
pub struct PanicInfo {
    pub message: String,
    pub location: String,
}

impl PanicInfo {
    /// (source file, message template): digits and quoted/debug-printed payloads stripped so
    /// that one defect has one fingerprint.
    pub fn fingerprint(&self) -> String {
        let file = self.location.rsplit_once(':').map(|x| x.0).unwrap_or(&self.location);
        let file = file.strip_prefix("/repo/").unwrap_or(file);
        let mut tmpl = String::new();
        for ch in self.message.chars() {
            if tmpl.len() >= 60 {
                break;
            }
            if ch == '{' || ch == '[' || ch == '(' || ch == '"' || ch == '\n' {
                break;
            }
            if ch.is_ascii_digit() {
                continue;
            }
            tmpl.push(ch);
        }
        format!("panic:{}:{}", file, tmpl.trim())
    }
}

pub enum Discard {
    FrontendRejected(String),
    ArgsRejected(String),
    ModelOverflow,
}

pub struct Workload {
    pub world: Rc<World>,
    pub schema_text: String,
    pub schema: Schema,
    pub q: QueryAst,
    pub query_text: String,
    pub compiled: Arc<IndexedQuery>,
    pub args: BTreeMap<String, FieldValue>,
    pub args_arc: Arc<BTreeMap<Arc<str>, FieldValue>>,
}

pub enum BuildError {
    /// The generator produced something the real parser rejects although it should be valid by
    /// construction: a harness bug (exit 2) for schemas, a counted discard for queries.
    SchemaRejected(String, String),
    Discard(Discard, Option<(String, String)>),
    FrontendPanic(PanicInfo, String, String),
}

pub fn build_world(tapes: &mut Tapes) -> (Rc<World>, String) {
    let world = gen_world(&mut tapes.world);
    let text = world.schema.render();
    (Rc::new(world), text)
}

pub fn build_workload(tapes: &mut Tapes, bias_fold_count: bool) -> Result<Workload, BuildError> {
    build_workload_biased(tapes, bias_fold_count, false)
}

pub fn wants_tag_bias(prop: &str) -> bool {
    matches!(prop, "C01" | "C04" | "C05" | "C09" | "C21" | "C22" | "C02")
}

pub fn build_workload_biased(
    tapes: &mut Tapes,
    bias_fold_count: bool,
    bias_tags: bool,
) -> Result<Workload, BuildError> {
    build_workload_full(tapes, bias_fold_count, bias_tags, false)
}

/// `adversarial_args` (C09 only): some argument values are replaced by values the harness's own
/// typing of the variable says are NOT admissible (null for a non-null variable, a list with a
/// null element, a value of another base type). Whether such a map is accepted is the engine's
/// call (argument validation, C12 is not claimed here): if it refuses, the case is discarded;
/// if it accepts, C09 says execution must still not panic.
thread_local! {
    /// set by run_case for C04: half of the cases draw more filters per property
    pub static MANY_FILTERS: std::cell::Cell<bool> = const { std::cell::Cell::new(false) };
}

pub fn build_workload_full(
    tapes: &mut Tapes,
    bias_fold_count: bool,
    bias_tags: bool,
    adversarial_args: bool,
) -> Result<Workload, BuildError> {
    let (world, schema_text) = build_world(tapes);
    let schema = match catch_unwind(AssertUnwindSafe(|| Schema::parse(&schema_text))) {
        Ok(Ok(s)) => s,
        Ok(Err(e)) => return Err(BuildError::SchemaRejected(schema_text, format!("{e}"))),
        Err(_) => {
            let info = take_panic();
            return Err(BuildError::SchemaRejected(schema_text, format!("panic: {info:?}")));
        }
    };
    let mut cfg = QueryCfg::draw(&mut tapes.query, bias_fold_count);
    if bias_fold_count {
        cfg.f_fold = true;
        cfg.f_count = true;
        // folds inside folds inside folds: half of the fold-count cases allow three levels
        let deep = tapes.query.draw(2) as usize;
        cfg.max_vertices = cfg.max_vertices.max(3 + 2 * deep);
        cfg.max_depth = cfg.max_depth.max(2 + 2 * deep);
    }
    if bias_tags {
        cfg.bias_tags = true;
        cfg.f_tags = true;
        cfg.f_filters = true;
        // half of the tag-biased cases also lean toward @optional edges, so that tags, folds,
        // coercions and filters under *missing* optionals are common rather than rare
        if tapes.query.draw(2) == 1 {
            cfg.bias_optional = true;
            cfg.f_optional = true;
            cfg.max_vertices = cfg.max_vertices.max(5);
            cfg.max_depth = cfg.max_depth.max(3);
            cfg.f_fold = true;
        }
    }
    if adversarial_args || tapes.query.draw(4) == 0 {
        cfg.bias_var_reuse = true;
    }
    if MANY_FILTERS.with(|m| m.get()) && tapes.query.draw(2) == 0 {
        cfg.bias_many_filters = true;
        cfg.f_filters = true;
    }
    let q = gen_query(&world, &mut tapes.query, cfg);
    let mut args = gen_args(&q, &world, &mut tapes.args);
    if adversarial_args {
        let t = &mut tapes.args;
        for (name, v) in args.iter_mut() {
            // variables used by a fold-count filter are always perturbed (their values reach
            // the fold-size limit computations), the others half of the time
            let is_count = q.vars.iter().any(|x| &x.name == name && x.count);
            if t.draw(2) == 0 && !is_count {
                continue;
            }
            *v = match (t.draw(4), &*v) {
                (0, _) => FieldValue::Null,
                (1, FieldValue::List(l)) => {
                    let mut items: Vec<FieldValue> = l.iter().cloned().collect();
                    let at = t.draw(items.len() as u32 + 1) as usize;
                    items.insert(at, FieldValue::Null);
                    FieldValue::List(items.into())
                }
                (1, _) => FieldValue::Null,
                (2, FieldValue::String(_)) => FieldValue::Int64(1),
                (2, FieldValue::List(_)) => FieldValue::Int64(0),
                (2, _) => FieldValue::String("a".into()),
                (_, other) => FieldValue::List(vec![other.clone()].into()),
            };
        }
    }
    finish_workload(world, schema_text, schema, q, args)
}

pub fn finish_workload(
    world: Rc<World>,
    schema_text: String,
    schema: Schema,
    q: QueryAst,
    args: BTreeMap<String, FieldValue>,
) -> Result<Workload, BuildError> {
    let query_text = q.render(&world);
    let compiled = match catch_unwind(AssertUnwindSafe(|| frontend::parse(&schema, &query_text))) {
        Ok(Ok(c)) => c,
        Ok(Err(e)) => {
            return Err(BuildError::Discard(
                Discard::FrontendRejected(format!("{e}")),
                Some((schema_text, query_text)),
            ));
        }
        Err(_) => {
            let info = take_panic().unwrap_or(PanicInfo {
                message: "?".into(),
                location: "?".into(),
            });
            return Err(BuildError::FrontendPanic(info, schema_text, query_text));
        }
    };
    let args_arc: Arc<BTreeMap<Arc<str>, FieldValue>> =
        Arc::new(args.iter().map(|(k, v)| (Arc::from(k.as_str()), v.clone())).collect());
    Ok(Workload { world, schema_text, schema, q, query_text, compiled, args, args_arc })
}

pub fn take_panic() -> Option<PanicInfo> {
    PANIC_INFO.with(|p| p.borrow_mut().take()).map(|(m, l)| PanicInfo { message: m, location: l })
}

impl Workload {
    pub fn model(&self) -> ModelResult {
        Model::new(&self.world, &self.q, &self.args).run(&self.q)
    }

    pub fn render(&self) -> serde_json::Value {
        let args: BTreeMap<String, String> =
            self.args.iter().map(|(k, v)| (k.clone(), fv_render(v))).collect();
        serde_json::json!({
            "schema": self.schema_text,
            "query": self.query_text,
            "args": args,
            "dataset": self.world.render_dataset(),
        })
    }
}

#[derive(Clone, Copy, Debug, PartialEq)]
pub enum Consumer {
    All,
    StopAfter(usize),
}

#[derive(Debug)]
pub enum Ending {
    Completed,
    Stopped,
    Panic(PanicInfo),
    EventCap,
    HarnessBug(String),
    ArgsRejected(String),
}

pub struct ExecOutcome {
    pub ending: Ending,
    pub raw_rows: Vec<BTreeMap<Arc<str>, FieldValue>>,
    pub rows: Vec<Row>,
    /// starting vertices pulled so far, sampled when each row was produced
    pub start_pulled_at_row: Vec<usize>,
    pub start_pulled_before_first_next: usize,
    pub pulls_before_first_next: u64,
    pub events_at_stop: u64,
    pub events_after_drop: u64,
    pub events: u64,
    pub digest: u64,
    pub data_reads: u64,
    pub start_pulled: usize,
    pub fires: Fires,
    pub violations: Vec<MonitorViolation>,
    pub log: Vec<Event>,
    pub sched: Tape,
    pub calls: u32,
}

#[derive(Default)]
pub struct AstInfo {
    pub edge_params: BTreeMap<usize, (String, BTreeMap<String, FieldValue>)>,
    pub fold_vids: BTreeSet<usize>,
    /// (vid, property) pairs carrying a `>=` filter with a tag operand (known finding A1 shim).
    pub ge_tag_props: BTreeSet<(usize, String)>,
    /// (from vid, edge type name, implicit coercion type name) of recursive edges.
    pub recursion_coercions: BTreeSet<(usize, String, String)>,
}

fn ast_info(w: &Workload) -> AstInfo {
    fn go(w: &Workload, n: &QNode, in_fold: bool, info: &mut AstInfo) {
        if in_fold {
            info.fold_vids.insert(n.vid);
        }
        for it in &n.items {
            match it {
                QItem::Prop(p) => {
                    for f in &p.filters {
                        if f.op == crate::val::Op::Ge && matches!(f.operand, crate::qast::Operand::Tag(_)) {
                            info.ge_tag_props.insert((n.vid, p.name.clone()));
                        }
                    }
                }
                QItem::Edge(e) => {
                    let mut eff = BTreeMap::new();
                    if let Some(def) = w.world.schema.edge(n.eff_ty(), &e.name) {
                        for p in &def.params {
                            let v = match e.params.get(&p.name) {
                                Some(v) => v.clone(),
                                None => p.default.clone().unwrap_or(FieldValue::Null),
                            };
                            eff.insert(p.name.clone(), v);
                        }
                        if matches!(e.kind, EdgeKind::Recurse(_)) {
                            if let Ok(Some(x)) = w.world.schema.recurse_rule(n.eff_ty(), def) {
                                info.recursion_coercions.insert((
                                    n.vid,
                                    w.world.schema.types[def.target].name.clone(),
                                    w.world.schema.types[x].name.clone(),
                                ));
                            }
                        }
                    }
                    info.edge_params.insert(e.node.vid, (e.name.clone(), eff));
                    let child_in_fold = in_fold || matches!(e.kind, EdgeKind::Fold(_));
                    go(w, &e.node, child_in_fold, info);
                }
            }
        }
    }
    let mut info = AstInfo::default();
    go(w, &w.q.root, false, &mut info);
    info
}

pub fn make_sim(w: &Workload, cfg: SchedCfg, sched: Tape, record: bool, event_cap: u64) -> Rc<RefCell<Sim>> {
    let mut sim = Sim::new(w.world.clone(), sched, cfg);
    sim.record = record;
    sim.event_cap = event_cap;
    let info = ast_info(w);
    sim.expected_edge_params = info.edge_params;
    sim.fold_vids = info.fold_vids;
    sim.ge_tag_props = info.ge_tag_props;
    sim.recursion_coercions = info.recursion_coercions;
    let mut entry_params = BTreeMap::new();
    if let Some(ep) = w.world.schema.entry_point(&w.q.entry) {
        for p in &ep.params {
            let v = match w.q.entry_params.get(&p.name) {
                Some(v) => v.clone(),
                None => p.default.clone().unwrap_or(FieldValue::Null),
            };
            entry_params.insert(p.name.clone(), v);
        }
    }
    sim.expected_entry = Some((w.q.entry.clone(), entry_params));
    Rc::new(RefCell::new(sim))
}

pub struct ExecOpts {
    pub cfg: SchedCfg,
    pub consumer: Consumer,
    pub record: bool,
    pub event_cap: u64,
    pub only_start: Option<usize>,
}

impl ExecOpts {
    pub fn new(cfg: SchedCfg) -> ExecOpts {
        ExecOpts { cfg, consumer: Consumer::All, record: false, event_cap: 400_000, only_start: None }
    }
}

pub fn row_to_model(r: &BTreeMap<Arc<str>, FieldValue>) -> Row {
    r.iter().map(|(k, v)| (k.to_string(), Val::from_fv(v))).collect()
}

/// Run the real engine over the simulated adapter.
pub fn exec(w: &Workload, opts: ExecOpts, sched: Tape) -> ExecOutcome {
    let recording = RECORD_LOGS.with(|r| r.borrow().is_some());
    let sim = make_sim(w, opts.cfg.clone(), sched, opts.record || recording, opts.event_cap);
    sim.borrow_mut().only_start = opts.only_start;
    let adapter = Arc::new(SimAdapter::new(sim.clone()));
    let mut raw_rows = vec![];
    let mut start_at_row = vec![];
    let mut before_first = (0usize, 0u64);
    let mut events_at_stop = 0;
    let mut events_after_drop = 0;
    take_panic();
    let result = catch_unwind(AssertUnwindSafe(|| {
        let it = interpret_ir(adapter.clone(), w.compiled.clone(), w.args_arc.clone());
        let mut it = match it {
            Ok(it) => it,
            Err(e) => return Err(format!("{e}")),
        };
        {
            let s = sim.borrow();
            before_first = (s.start_pulled, s.pulls);
        }
        let mut stopped = false;
        loop {
            if let Consumer::StopAfter(k) = opts.consumer {
                if raw_rows.len() >= k {
                    stopped = true;
                    break;
                }
            }
            match it.next() {
                Some(row) => {
                    let sp = sim.borrow().start_pulled;
                    let k = raw_rows.len();
                    sim.borrow_mut().ev(|| format!("ROW k={k} start_pulls={sp}"));
                    raw_rows.push(row);
                    start_at_row.push(sp);
                    if raw_rows.len() > 6000 {
                        std::panic::panic_any(EventCapExceeded);
                    }
                }
                None => break,
            }
        }
        events_at_stop = sim.borrow().events;
        drop(it);
        events_after_drop = sim.borrow().events;
        Ok(stopped)
    }));
    let ending = match result {
        Ok(Ok(true)) => Ending::Stopped,
        Ok(Ok(false)) => Ending::Completed,
        Ok(Err(e)) => Ending::ArgsRejected(e),
        Err(payload) => {
            if payload.downcast_ref::<EventCapExceeded>().is_some() {
                Ending::EventCap
            } else if let Some(h) = payload.downcast_ref::<HarnessBug>() {
                Ending::HarnessBug(h.0.clone())
            } else {
                let info = take_panic().unwrap_or(PanicInfo {
                    message: "<no message>".into(),
                    location: "<unknown>".into(),
                });
                if info.location.starts_with("src/") {
                    Ending::HarnessBug(format!("{} at {}", info.message, info.location))
                } else {
                    Ending::Panic(info)
                }
            }
        }
    };
    // After a panic the RefCell may still be borrowed by an unwound frame; be defensive.
    let rows = raw_rows.iter().map(row_to_model).collect();
    let (events, digest, data_reads, start_pulled, fires, violations, log, sched, calls) =
        match sim.try_borrow_mut() {
            Ok(mut s) => (
                s.events,
                s.digest.0,
                s.data_reads,
                s.start_pulled,
                s.fires.clone(),
                std::mem::take(&mut s.violations),
                std::mem::take(&mut s.log),
                s.sched.clone(),
                s.call_ctr,
            ),
            Err(_) => (0, 0, 0, 0, Fires::default(), vec![], vec![], Tape::replaying(vec![]), 0),
        };
    if recording {
        let mut lines: Vec<String> = vec![format!(
            "# execution: schedule={} hints={} consumer={:?} only_start={:?} ending={}",
            if opts.cfg.random { "random" } else { "lazy(S0)" },
            opts.cfg.any_hints(),
            opts.consumer,
            opts.only_start,
            match &ending {
                Ending::Panic(i) => format!("panic at {}", i.location),
                other => format!("{other:?}").chars().take(60).collect(),
            }
        )];
        lines.extend(log.iter().take(400).map(|e| format!("{} {}", e.seq, e.text)));
        if log.len() > 400 {
            lines.push(format!("... {} more events", log.len() - 400));
        }
        RECORD_LOGS.with(|r| {
            if let Some(v) = r.borrow_mut().as_mut() {
                if v.len() < 12 {
                    v.push(lines);
                }
            }
        });
    }
    ExecOutcome {
        ending,
        raw_rows,
        rows,
        start_pulled_at_row: start_at_row,
        start_pulled_before_first_next: before_first.0,
        pulls_before_first_next: before_first.1,
        events_at_stop,
        events_after_drop,
        events,
        digest,
        data_reads,
        start_pulled,
        fires,
        violations,
        log,
        sched,
        calls,
    }
}

/// Several live result iterators on one shared adapter, pulled in a tape-chosen interleaving (F7).
/// Returns each stream's rows.
pub struct InterleavedOutcome {
    pub ending: Ending,
    pub streams: Vec<Vec<Row>>,
    pub completed: Vec<bool>,
    pub sched: Tape,
    pub switches: u64,
    pub fires: Fires,
    pub violations: Vec<MonitorViolation>,
}

pub fn exec_interleaved(w: &Workload, cfg: SchedCfg, sched: Tape, n_streams: usize, event_cap: u64) -> InterleavedOutcome {
    let ws: Vec<&Workload> = (0..n_streams).map(|_| w).collect();
    exec_interleaved_multi(&ws, cfg, sched, event_cap)
}

/// Like `exec_interleaved`, but stream i runs workload `ws[i]` (different compiled queries over
/// the same world on one shared adapter). The adapter's per-query monitors (C21 expectations)
/// belong to `ws[0]` only, so callers must not read monitor violations when the queries differ.
pub fn exec_interleaved_multi(ws: &[&Workload], cfg: SchedCfg, sched: Tape, event_cap: u64) -> InterleavedOutcome {
    let n_streams = ws.len();
    let w = ws[0];
    let sim = make_sim(w, cfg, sched, false, event_cap);
    let adapter = Arc::new(SimAdapter::new(sim.clone()));
    let mut streams: Vec<Vec<Row>> = vec![vec![]; n_streams];
    let mut done = vec![false; n_streams];
    let mut switches = 0u64;
    take_panic();
    let result = catch_unwind(AssertUnwindSafe(|| {
        let mut its = vec![];
        for wi in ws.iter() {
            match interpret_ir(adapter.clone(), wi.compiled.clone(), wi.args_arc.clone()) {
                Ok(it) => its.push(Some(it)),
                Err(e) => return Err(format!("{e}")),
            }
        }
        let mut last = usize::MAX;
        loop {
            let live: Vec<usize> = (0..n_streams).filter(|i| !done[*i]).collect();
            if live.is_empty() {
                break;
            }
            let pick = live[sim.borrow_mut().sched.draw(live.len() as u32) as usize];
            if pick != last {
                switches += 1;
                last = pick;
                sim.borrow_mut().ev(|| format!("SWITCH q={pick}"));
            }
            // sometimes drop a stream early (cancellation while others are live)
            match its[pick].as_mut().unwrap().next() {
                Some(row) => {
                    streams[pick].push(row_to_model(&row));
                    if streams[pick].len() > 6000 {
                        std::panic::panic_any(EventCapExceeded);
                    }
                }
                None => {
                    done[pick] = true;
                    its[pick] = None;
                }
            }
        }
        Ok(())
    }));
    let ending = match result {
        Ok(Ok(())) => Ending::Completed,
        Ok(Err(e)) => Ending::ArgsRejected(e),
        Err(payload) => {
            if payload.downcast_ref::<EventCapExceeded>().is_some() {
                Ending::EventCap
            } else if let Some(h) = payload.downcast_ref::<HarnessBug>() {
                Ending::HarnessBug(h.0.clone())
            } else {
                let info = take_panic().unwrap_or(PanicInfo { message: "?".into(), location: "?".into() });
                if info.location.starts_with("src/") {
                    Ending::HarnessBug(format!("{} at {}", info.message, info.location))
                } else {
                    Ending::Panic(info)
                }
            }
        }
    };
    let (sched, fires, violations) = match sim.try_borrow_mut() {
        Ok(mut s) => (s.sched.clone(), s.fires.clone(), std::mem::take(&mut s.violations)),
        Err(_) => (Tape::replaying(vec![]), Fires::default(), vec![]),
    };
    InterleavedOutcome { ending, streams, completed: done, sched, switches, fires, violations }
}

/// Line span of `fn construct_outputs` in /repo's execution.rs (where the engine builds each result
/// row and asserts that its keys are the declared output names), read from the source the
/// simulator was built against. `None` if the function cannot be located.
pub fn construct_outputs_span() -> Option<(u32, u32)> {
    use std::sync::OnceLock;
    static SPAN: OnceLock<Option<(u32, u32)>> = OnceLock::new();
    *SPAN.get_or_init(|| {
        let text = std::fs::read_to_string("/repo/trustfall_core/src/interpreter/execution.rs").ok()?;
        let mut start = None;
        for (i, line) in text.lines().enumerate() {
            let ln = i as u32 + 1;
            match start {
                None => {
                    if line.starts_with("fn construct_outputs") {
                        start = Some(ln);
                    }
                }
                Some(s) => {
                    // the function ends at the first line that is exactly "}" in column 0
                    if line == "}" {
                        return Some((s, ln));
                    }
                }
            }
        }
        None
    })
}

/// C13: is this panic the engine's own row-construction consistency check (row keys / values
/// versus declared outputs, inside `construct_outputs`)? The simulator is built with debug
/// assertions on, so where a production build would hand out a row whose keys differ from the
/// declared outputs, this build panics there instead; C13 must count that as its violation.
pub fn panic_in_row_construction(info: &PanicInfo) -> bool {
    let Some((a, b)) = construct_outputs_span() else { return false };
    // the panic hook records "file:line"
    let Some((file, line)) = info.location.rsplit_once(':') else { return false };
    let line = line.parse::<u32>().ok();
    file.ends_with("trustfall_core/src/interpreter/execution.rs") && line.map(|l| l >= a && l <= b).unwrap_or(false)
}

/// C13: each row carries exactly the declared outputs, each value valid for the declared type,
/// and the declared type is the one the documented rule gives.
pub fn check_rows_c13(w: &Workload, raw_rows: &[BTreeMap<Arc<str>, FieldValue>]) -> Option<(String, String)> {
    let declared: BTreeMap<String, String> = w
        .compiled
        .outputs
        .iter()
        .map(|(k, o)| (k.to_string(), o.value_type.to_string()))
        .collect();
    let expected = expected_output_types(&w.q);
    let dnames: BTreeSet<&String> = declared.keys().collect();
    let enames: BTreeSet<&String> = expected.keys().collect();
    if dnames != enames {
        return Some((
            "declared-output-names-differ-from-query-text".into(),
            format!("declared {dnames:?}, query text says {enames:?}"),
        ));
    }
    for (name, tytext) in &declared {
        let Some(dty) = Ty::parse(tytext) else {
            return Some(("declared-output-type-unparseable".into(), format!("{name}: {tytext}")));
        };
        let ety = &expected[name];
        if &dty != ety {
            return Some((
                "declared-output-type-differs-from-documented-rule".into(),
                format!("output `{name}` declared `{tytext}`, documented rule gives `{}`", ety.render()),
            ));
        }
    }
    for (i, row) in raw_rows.iter().enumerate() {
        let rnames: BTreeSet<String> = row.keys().map(|k| k.to_string()).collect();
        let dn: BTreeSet<String> = declared.keys().cloned().collect();
        if rnames != dn {
            return Some((
                "row-keys-differ-from-declared-outputs".into(),
                format!("row {i} has {rnames:?}, declared {dn:?}"),
            ));
        }
        for (k, v) in row {
            let ty = Ty::parse(&declared[k.as_ref()]).unwrap();
            if !ty.admits(&Val::from_fv(v)) {
                return Some((
                    "row-value-invalid-for-declared-type".into(),
                    format!("row {i}: `{k}` = {} is not a valid `{}`", fv_render(v), ty.render()),
                ));
            }
        }
    }
    None
}
