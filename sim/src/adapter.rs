//! The simulated data source: an `Adapter` whose every legal freedom (when it pulls its input,
//! how much it buffers, whether it uses each hint) is decided by the `sched` tape, with online
//! monitors for the adapter contract (C21) and the required-properties hint (C05).

use std::cell::RefCell;
use std::collections::{BTreeMap, BTreeSet, VecDeque};
use std::rc::Rc;
use std::sync::Arc;

use trustfall_core::interpreter::{
    Adapter, AsVertex, CandidateValue, ContextIterator, ContextOutcomeIterator, DataContext,
    ResolveEdgeInfo, ResolveInfo, VertexInfo, VertexIterator,
};
use trustfall_core::ir::{EdgeParameters, FieldValue};

use crate::tape::{Digest, Tape};
use crate::val::{Ty, Val, fv_render};
use crate::world::World;

pub type Vx = u32;

/// Private panic payload: the run exceeded its event cap (bounded liveness).
pub struct EventCapExceeded;
/// Private panic payload: the harness's own self-check tripped (harness bug, exit 2).
pub struct HarnessBug(pub String);

#[derive(Clone, Debug, Default)]
pub struct SchedCfg {
    /// false: strictly lazy baseline S0 (no draws at all from the sched tape by the adapter).
    pub random: bool,
    pub allow_prefetch: bool,
    pub allow_refill: bool,
    pub allow_eager_neighbors: bool,
    pub allow_start_collect: bool,
    /// Hint pruning (N3): which kinds may fire in this run.
    pub hints_static: bool,
    pub hints_dynamic: bool,
    pub hints_mandatory: bool,
    pub hints_depth: u32,
}

impl SchedCfg {
    pub fn lazy() -> SchedCfg {
        SchedCfg::default()
    }
    pub fn draw(t: &mut Tape, with_hints: bool) -> SchedCfg {
        let mut c = SchedCfg { random: true, ..Default::default() };
        c.allow_prefetch = t.chance(3, 4);
        c.allow_refill = t.chance(3, 4);
        c.allow_eager_neighbors = t.chance(1, 2);
        c.allow_start_collect = t.chance(1, 2);
        if with_hints {
            c.hints_static = t.chance(3, 4);
            c.hints_dynamic = t.chance(3, 4);
            c.hints_mandatory = t.chance(3, 4);
            c.hints_depth = t.draw(4);
        }
        c
    }
    pub fn hints_only(t: &mut Tape) -> SchedCfg {
        // lazy pulling, hints on: isolates C04 from C02
        let mut c = SchedCfg { random: true, ..Default::default() };
        c.hints_static = t.chance(3, 4);
        c.hints_dynamic = t.chance(3, 4);
        c.hints_mandatory = t.chance(3, 4);
        c.hints_depth = t.draw(4);
        c
    }
    pub fn any_hints(&self) -> bool {
        self.hints_static || self.hints_dynamic || self.hints_mandatory
    }
}

#[derive(Clone, Copy, Debug, Default)]
pub struct CallPolicy {
    /// contexts pulled inside the resolver call before the iterator is returned (F1)
    pub prefetch: u32,
    /// 0: one at a time; 1: 2..4; 2: 5..16; 3: everything (F2 / F3)
    pub refill: u8,
    pub eager_neighbors: bool,
}

#[derive(Clone, Debug, Default)]
pub struct Fires {
    pub f1_prefetch_in_call: u64,
    pub f1_prefetch_ge2: u64,
    pub f2_chunked_refill: u64,
    pub f3_drain_all: u64,
    pub f4_eager_neighbors: u64,
    pub f5_static_pruned: u64,
    pub f5_dynamic_pruned: u64,
    pub f5_mandatory_pruned: u64,
    pub f5_static_consulted: u64,
    pub f5_dynamic_consulted: u64,
    pub f5_mandatory_consulted: u64,
    pub f5_nested_consulted: u64,
    pub start_collected: u64,
    pub dynamic_resolved_in_fold: u64,
}

impl Fires {
    pub fn add(&mut self, o: &Fires) {
        self.f1_prefetch_in_call += o.f1_prefetch_in_call;
        self.f1_prefetch_ge2 += o.f1_prefetch_ge2;
        self.f2_chunked_refill += o.f2_chunked_refill;
        self.f3_drain_all += o.f3_drain_all;
        self.f4_eager_neighbors += o.f4_eager_neighbors;
        self.f5_static_pruned += o.f5_static_pruned;
        self.f5_dynamic_pruned += o.f5_dynamic_pruned;
        self.f5_mandatory_pruned += o.f5_mandatory_pruned;
        self.f5_static_consulted += o.f5_static_consulted;
        self.f5_dynamic_consulted += o.f5_dynamic_consulted;
        self.f5_mandatory_consulted += o.f5_mandatory_consulted;
        self.f5_nested_consulted += o.f5_nested_consulted;
        self.start_collected += o.start_collected;
        self.dynamic_resolved_in_fold += o.dynamic_resolved_in_fold;
    }
    pub fn to_json(&self) -> serde_json::Value {
        serde_json::json!({
            "F1_prefetch_in_call": self.f1_prefetch_in_call,
            "F1_prefetch_in_call_ge2_contexts": self.f1_prefetch_ge2,
            "F2_chunked_refill": self.f2_chunked_refill,
            "F3_drain_all": self.f3_drain_all,
            "F4_eager_neighbors": self.f4_eager_neighbors,
            "F5_static_hint_consulted": self.f5_static_consulted,
            "F5_static_hint_pruned_vertex": self.f5_static_pruned,
            "F5_dynamic_hint_consulted": self.f5_dynamic_consulted,
            "F5_dynamic_hint_pruned_vertex": self.f5_dynamic_pruned,
            "F5_mandatory_edge_consulted": self.f5_mandatory_consulted,
            "F5_mandatory_edge_pruned_vertex": self.f5_mandatory_pruned,
            "F5_nested_destination_consulted": self.f5_nested_consulted,
            "start_vertices_collected_eagerly": self.start_collected,
            "dynamic_hint_resolved_inside_fold": self.dynamic_resolved_in_fold,
        })
    }
}

#[derive(Clone, Debug)]
pub struct MonitorViolation {
    pub property: &'static str,
    pub class: String,
    pub detail: String,
}

#[derive(Clone, Debug)]
pub struct Event {
    pub seq: u64,
    pub text: String,
}

pub struct Sim {
    pub world: Rc<World>,
    pub sched: Tape,
    pub cfg: SchedCfg,
    pub events: u64,
    pub event_cap: u64,
    pub digest: Digest,
    pub record: bool,
    pub log: Vec<Event>,
    pub call_ctr: u32,
    pub start_pulled: usize,
    pub pulls: u64,
    pub data_reads: u64,
    pub fires: Fires,
    pub violations: Vec<MonitorViolation>,
    /// C05: required properties reported for a Vid when the vertex was resolved
    /// (starting vertices / destination of resolve_neighbors).
    pub reqprops_at_resolution: BTreeMap<usize, BTreeSet<String>>,
    /// C21: what the query text says each edge (by destination Vid) should be called with.
    pub expected_edge_params: BTreeMap<usize, (String, BTreeMap<String, FieldValue>)>,
    pub expected_entry: Option<(String, BTreeMap<String, FieldValue>)>,
    /// C03: expose only this starting vertex (by position).
    pub only_start: Option<usize>,
    /// Vids that are roots of fold components (for the "dynamic hint inside fold" probe).
    pub fold_vids: BTreeSet<usize>,
    pub ge_tag_props: BTreeSet<(usize, String)>,
    pub recursion_coercions: BTreeSet<(usize, String, String)>,
    pub stop_logging: bool,
}

thread_local! {
    /// Known-finding shims (see known_findings.json): when one is active the simulated adapter
    /// avoids the one call site a recorded defect lives at, so that a violation that disappears
    /// under the shim can be attributed to that finding and nothing else.
    pub static SHIMS: RefCell<BTreeSet<String>> = const { RefCell::new(BTreeSet::new()) };
}

pub fn shim_active(name: &str) -> bool {
    SHIMS.with(|s| s.borrow().contains(name))
}

impl Sim {
    pub fn new(world: Rc<World>, sched: Tape, cfg: SchedCfg) -> Sim {
        Sim {
            world,
            sched,
            cfg,
            events: 0,
            event_cap: 2_000_000,
            digest: Digest::new(),
            record: false,
            log: vec![],
            call_ctr: 0,
            start_pulled: 0,
            pulls: 0,
            data_reads: 0,
            fires: Fires::default(),
            violations: vec![],
            reqprops_at_resolution: BTreeMap::new(),
            expected_edge_params: BTreeMap::new(),
            expected_entry: None,
            only_start: None,
            fold_vids: BTreeSet::new(),
            ge_tag_props: BTreeSet::new(),
            recursion_coercions: BTreeSet::new(),
            stop_logging: false,
        }
    }

    pub fn ev(&mut self, text: impl FnOnce() -> String) {
        self.events += 1;
        if self.events > self.event_cap {
            std::panic::panic_any(EventCapExceeded);
        }
        let s = text();
        self.digest.add_str(&s);
        if self.record {
            self.log.push(Event { seq: self.events, text: s });
        }
    }

    fn violation(&mut self, property: &'static str, class: &str, detail: String) {
        if self.violations.len() < 16 {
            self.violations.push(MonitorViolation { property, class: class.to_string(), detail });
        }
    }

    fn draw_policy(&mut self) -> CallPolicy {
        if !self.cfg.random {
            return CallPolicy::default();
        }
        let mut p = CallPolicy::default();
        if self.cfg.allow_prefetch {
            p.prefetch = match self.sched.draw(8) {
                0..=3 => 0,
                4 => 1,
                5 => 2 + self.sched.draw(3),
                _ => u32::MAX,
            };
        }
        if self.cfg.allow_refill {
            p.refill = match self.sched.draw(6) {
                0..=2 => 0,
                3 => 1,
                4 => 2,
                _ => 3,
            };
        }
        if self.cfg.allow_eager_neighbors {
            p.eager_neighbors = self.sched.draw(2) == 1;
        }
        p
    }
}

pub struct SimAdapter {
    pub sim: Rc<RefCell<Sim>>,
}

impl SimAdapter {
    pub fn new(sim: Rc<RefCell<Sim>>) -> Self {
        SimAdapter { sim }
    }
}

pub fn cand_contains(c: &CandidateValue<FieldValue>, v: &FieldValue) -> bool {
    match c {
        CandidateValue::Impossible => false,
        CandidateValue::Single(x) => x == v,
        CandidateValue::Multiple(xs) => xs.contains(v),
        CandidateValue::Range(r) => r.contains(v),
        CandidateValue::All => true,
        _ => true,
    }
}

fn params_map(p: &EdgeParameters) -> BTreeMap<String, FieldValue> {
    p.iter().map(|(k, v)| (k.to_string(), v.clone())).collect()
}

fn render_params(p: &BTreeMap<String, FieldValue>) -> String {
    let parts: Vec<String> = p.iter().map(|(k, v)| format!("{k}={}", fv_render(v))).collect();
    parts.join(",")
}

/// Is vertex `u` still possibly contributing, according to the hints for the query vertex
/// described by `info`? Only property-candidate and mandatory-edge hints are consulted; never
/// `coerced_to_type()` (DESIGN.md Appendix A).
fn viable<I: VertexInfo>(
    sim: &Rc<RefCell<Sim>>,
    info: &I,
    u: Vx,
    depth: u32,
    use_static: bool,
    use_mandatory: bool,
    nested: bool,
) -> bool {
    let world = sim.borrow().world.clone();
    let cty = world.concrete_type(u);
    if use_static {
        for p in &world.schema.types[cty].props {
            if let Some(c) = info.statically_required_property(&p.name) {
                let mut s = sim.borrow_mut();
                s.fires.f5_static_consulted += 1;
                if nested {
                    s.fires.f5_nested_consulted += 1;
                }
                if !cand_contains(&c, &world.prop_fv(u, &p.name)) {
                    s.fires.f5_static_pruned += 1;
                    return false;
                }
            }
        }
    }
    if use_mandatory && depth > 0 {
        for e in &world.schema.types[cty].edges {
            let infos: Vec<_> = info.mandatory_edges_with_name(&e.name).collect();
            for ei in infos {
                sim.borrow_mut().fires.f5_mandatory_consulted += 1;
                let params = params_map(ei.parameters());
                let ns = world.neighbors(u, &e.name, &params);
                let ok = ns.iter().any(|w| {
                    viable(sim, ei.destination(), *w, depth - 1, use_static, use_mandatory, true)
                });
                if !ok {
                    sim.borrow_mut().fires.f5_mandatory_pruned += 1;
                    return false;
                }
            }
        }
    }
    true
}

// ---------------------------------------------------------------------------------------------
// Resolver instance: input port, output port, policy.

struct Resolver<I, O> {
    sim: Rc<RefCell<Sim>>,
    call: u32,
    input: Option<Box<dyn Iterator<Item = I>>>,
    buf: VecDeque<O>,
    policy: CallPolicy,
    compute: Box<dyn FnMut(I) -> O>,
    pulled: u64,
    yielded: u64,
}

impl<I, O> Resolver<I, O> {
    fn pull(&mut self, n: u32) -> u32 {
        let mut got = 0;
        while got < n {
            let Some(inp) = self.input.as_mut() else { break };
            // No RefCell borrow is held across this call: the engine may re-enter the adapter.
            match inp.next() {
                Some(item) => {
                    let i = self.pulled;
                    self.pulled += 1;
                    let call = self.call;
                    {
                        let mut s = self.sim.borrow_mut();
                        s.pulls += 1;
                        s.ev(|| format!("PULL_IN call={call} i={i}"));
                    }
                    let o = (self.compute)(item);
                    self.buf.push_back(o);
                    got += 1;
                }
                None => {
                    let call = self.call;
                    self.sim.borrow_mut().ev(|| format!("IN_EXHAUSTED call={call}"));
                    // Inputs are not promised to be fused: never poll again.
                    self.input = None;
                    break;
                }
            }
        }
        got
    }

    fn prefetch_in_call(&mut self) {
        if self.policy.prefetch > 0 {
            let got = self.pull(self.policy.prefetch);
            let mut s = self.sim.borrow_mut();
            if got >= 1 {
                s.fires.f1_prefetch_in_call += 1;
            }
            if got >= 2 {
                s.fires.f1_prefetch_ge2 += 1;
            }
        }
    }
}

impl<I, O> Iterator for Resolver<I, O> {
    type Item = O;
    fn next(&mut self) -> Option<O> {
        if self.buf.is_empty() && self.input.is_some() {
            let n = match self.policy.refill {
                0 => 1,
                1 => 2 + self.sim.borrow_mut().sched.draw(3),
                2 => 5 + self.sim.borrow_mut().sched.draw(12),
                _ => u32::MAX,
            };
            let got = self.pull(n);
            if got >= 2 {
                let mut s = self.sim.borrow_mut();
                if n == u32::MAX {
                    s.fires.f3_drain_all += 1;
                } else {
                    s.fires.f2_chunked_refill += 1;
                }
            }
        }
        let o = self.buf.pop_front();
        if o.is_some() {
            let (call, i) = (self.call, self.yielded);
            self.yielded += 1;
            self.sim.borrow_mut().ev(|| format!("YIELD_OUT call={call} i={i}"));
        }
        o
    }
}

struct StartIter {
    sim: Rc<RefCell<Sim>>,
    items: std::vec::IntoIter<Vx>,
    collected: bool,
}

impl Iterator for StartIter {
    type Item = Vx;
    fn next(&mut self) -> Option<Vx> {
        let v = self.items.next();
        if let Some(v) = v {
            let mut s = self.sim.borrow_mut();
            if !self.collected {
                s.start_pulled += 1;
                s.data_reads += 1;
            }
            s.ev(|| format!("START_PULL v={v}"));
        }
        v
    }
}

struct NeighIter {
    sim: Rc<RefCell<Sim>>,
    call: u32,
    ctx_i: u64,
    items: std::vec::IntoIter<Vx>,
    j: u32,
}

impl Iterator for NeighIter {
    type Item = Vx;
    fn next(&mut self) -> Option<Vx> {
        let v = self.items.next();
        if let Some(v) = v {
            let (call, i, j) = (self.call, self.ctx_i, self.j);
            self.j += 1;
            self.sim.borrow_mut().ev(|| format!("NEIGH call={call} i={i} j={j} v={v}"));
        }
        v
    }
}

fn check_active_vertex(sim: &Rc<RefCell<Sim>>, call: u32, v: Option<&Vx>, type_idx: Option<usize>, type_name: &str) {
    if let (Some(v), Some(t)) = (v, type_idx) {
        let mut s = sim.borrow_mut();
        if (*v as usize) >= s.world.vertices.len() {
            std::panic::panic_any(HarnessBug(format!("unknown vertex {v}")));
        }
        if !s.world.is_instance(*v, t) {
            let cname = s.world.schema.types[s.world.concrete_type(*v)].name.clone();
            s.violation(
                "C21",
                "active-vertex-not-instance-of-named-type",
                format!("call {call}: active vertex v{v}:{cname} passed as `{type_name}`"),
            );
        }
    }
}

impl SimAdapter {
    fn new_call(&self, describe: impl FnOnce(u32) -> String) -> (u32, CallPolicy) {
        let mut s = self.sim.borrow_mut();
        s.call_ctr += 1;
        let call = s.call_ctr;
        let text = describe(call);
        s.ev(|| text);
        let policy = s.draw_policy();
        if s.cfg.random {
            let p = policy;
            s.ev(|| format!("DECISION call={call} prefetch={} refill={} eager={}", p.prefetch, p.refill, p.eager_neighbors));
        }
        (call, policy)
    }

    fn type_idx_checked(&self, call: u32, type_name: &str) -> Option<usize> {
        let mut s = self.sim.borrow_mut();
        let idx = s.world.schema.type_index(type_name);
        if idx.is_none() {
            s.violation("C21", "type-not-in-schema", format!("call {call}: type `{type_name}`"));
        }
        idx
    }

    fn record_reqprops(&self, vid: usize, info: &impl VertexInfo) -> BTreeSet<String> {
        let set: BTreeSet<String> = info.required_properties().map(|r| r.name.to_string()).collect();
        self.sim.borrow_mut().reqprops_at_resolution.entry(vid).or_insert_with(|| set.clone());
        set
    }
}

fn vid_num(v: trustfall_core::ir::Vid) -> usize {
    // Vid is a transparent NonZeroUsize newtype without a public accessor; go through serde.
    serde_json::to_value(v).ok().and_then(|x| x.as_u64()).map(|x| x as usize).unwrap_or(0)
}

impl Adapter<'static> for SimAdapter {
    type Vertex = Vx;

    fn resolve_starting_vertices(
        &self,
        edge_name: &Arc<str>,
        parameters: &EdgeParameters,
        resolve_info: &ResolveInfo,
    ) -> VertexIterator<'static, Self::Vertex> {
        let params = params_map(parameters);
        let vid = vid_num(resolve_info.vid());
        let req = self.record_reqprops(vid, resolve_info);
        let (call, _policy) = self.new_call(|c| {
            format!(
                "CALL call={c} kind=start edge={edge_name} params=[{}] vid={vid} reqprops={:?}",
                render_params(&params),
                req
            )
        });
        let world = self.sim.borrow().world.clone();
        // C21: entry point defined, parameters exactly the declared set with valid values.
        {
            let mut s = self.sim.borrow_mut();
            match world.schema.entry_point(edge_name) {
                None => s.violation("C21", "entry-point-not-in-schema", format!("call {call}: `{edge_name}`")),
                Some(ep) => {
                    let defs = ep.params.clone();
                    check_params(&mut s, call, edge_name, &defs, &params);
                }
            }
            if let Some((ename, eparams)) = s.expected_entry.clone() {
                if ename != edge_name.as_ref() || !same_params(&eparams, &params) {
                    s.violation(
                        "C21",
                        "entry-point-parameters-differ-from-query",
                        format!("call {call}: got {edge_name}[{}], query says {ename}[{}]", render_params(&params), render_params(&eparams)),
                    );
                }
            }
        }
        let mut vs = world.starting(edge_name, &params);
        self.sim.borrow_mut().data_reads += 1;
        if let Some(j) = self.sim.borrow().only_start {
            vs = vs.into_iter().skip(j).take(1).collect();
        }
        // Hint pruning at the starting vertices (static candidates, mandatory edges).
        let (use_static, use_mand, depth) = {
            let mut s = self.sim.borrow_mut();
            let c = s.cfg.clone();
            if c.random && c.any_hints() {
                let st = c.hints_static && s.sched.draw(2) == 1;
                let md = c.hints_mandatory && s.sched.draw(2) == 1;
                (st, md, c.hints_depth)
            } else {
                (false, false, 0)
            }
        };
        if use_static || use_mand {
            vs.retain(|u| viable(&self.sim, resolve_info, *u, depth, use_static, use_mand, false));
        }
        let collect = {
            let mut s = self.sim.borrow_mut();
            s.cfg.random && s.cfg.allow_start_collect && s.sched.draw(3) == 2
        };
        if collect {
            let mut s = self.sim.borrow_mut();
            s.fires.start_collected += 1;
            s.start_pulled += vs.len();
            s.data_reads += vs.len() as u64;
        }
        Box::new(StartIter { sim: self.sim.clone(), items: vs.into_iter(), collected: collect })
    }

    fn resolve_property<V: AsVertex<Self::Vertex> + 'static>(
        &self,
        contexts: ContextIterator<'static, V>,
        type_name: &Arc<str>,
        property_name: &Arc<str>,
        resolve_info: &ResolveInfo,
    ) -> ContextOutcomeIterator<'static, V, FieldValue> {
        let vid = vid_num(resolve_info.vid());
        let req: BTreeSet<String> =
            resolve_info.required_properties().map(|r| r.name.to_string()).collect();
        let (call, policy) = self.new_call(|c| {
            format!("CALL call={c} kind=property type={type_name} prop={property_name} vid={vid} reqprops={req:?}")
        });
        let tidx = self.type_idx_checked(call, type_name);
        {
            let mut s = self.sim.borrow_mut();
            // C21: property defined on the named type, or the type-name meta property.
            if let Some(t) = tidx {
                if property_name.as_ref() != "__typename"
                    && s.world.schema.prop(t, property_name).is_none()
                {
                    s.violation(
                        "C21",
                        "property-not-defined-on-type",
                        format!("call {call}: `{type_name}.{property_name}`"),
                    );
                }
            }
            // C05: requested property must be listed.
            if !req.contains(property_name.as_ref()) {
                s.violation(
                    "C05",
                    "requested-property-missing-from-required-properties",
                    format!("vid {vid}: resolve_property(`{type_name}.{property_name}`) but required_properties() = {req:?}"),
                );
            }
            if let Some(earlier) = s.reqprops_at_resolution.get(&vid).cloned() {
                if !earlier.contains(property_name.as_ref()) {
                    s.violation(
                        "C05",
                        "requested-property-missing-from-list-reported-at-vertex-resolution",
                        format!("vid {vid}: resolve_property(`{type_name}.{property_name}`) but the list reported when the vertex was resolved was {earlier:?}"),
                    );
                }
            }
        }
        let sim = self.sim.clone();
        let pname = property_name.to_string();
        let tname = type_name.to_string();
        let compute = Box::new(move |ctx: DataContext<V>| {
            let av = ctx.active_vertex::<Vx>().copied();
            check_active_vertex(&sim, call, av.as_ref(), tidx, &tname);
            let value = match av {
                None => FieldValue::Null,
                Some(v) => {
                    let mut s = sim.borrow_mut();
                    s.data_reads += 1;
                    s.world.prop_fv(v, &pname)
                }
            };
            (ctx, value)
        });
        let mut r = Resolver {
            sim: self.sim.clone(),
            call,
            input: Some(contexts),
            buf: VecDeque::new(),
            policy,
            compute,
            pulled: 0,
            yielded: 0,
        };
        r.prefetch_in_call();
        Box::new(r)
    }

    fn resolve_neighbors<V: AsVertex<Self::Vertex> + 'static>(
        &self,
        contexts: ContextIterator<'static, V>,
        type_name: &Arc<str>,
        edge_name: &Arc<str>,
        parameters: &EdgeParameters,
        resolve_info: &ResolveEdgeInfo,
    ) -> ContextOutcomeIterator<'static, V, VertexIterator<'static, Self::Vertex>> {
        let params = params_map(parameters);
        let dest_vid = vid_num(resolve_info.destination_vid());
        let origin_vid = vid_num(resolve_info.origin_vid());
        let dest = resolve_info.destination();
        let req = self.record_reqprops(dest_vid, &dest);
        let (call, policy) = self.new_call(|c| {
            format!(
                "CALL call={c} kind=neighbors type={type_name} edge={edge_name} params=[{}] from={origin_vid} to={dest_vid} reqprops_dest={req:?}",
                render_params(&params)
            )
        });
        let tidx = self.type_idx_checked(call, type_name);
        let world = self.sim.borrow().world.clone();
        {
            let mut s = self.sim.borrow_mut();
            if let Some(t) = tidx {
                match world.schema.edge(t, edge_name) {
                    None => s.violation(
                        "C21",
                        "edge-not-defined-on-type",
                        format!("call {call}: `{type_name}.{edge_name}`"),
                    ),
                    Some(ed) => {
                        let defs = ed.params.clone();
                        check_params(&mut s, call, edge_name, &defs, &params);
                    }
                }
            }
            if let Some((ename, eparams)) = s.expected_edge_params.get(&dest_vid).cloned() {
                if ename != edge_name.as_ref() || !same_params(&eparams, &params) {
                    s.violation(
                        "C21",
                        "edge-parameters-differ-from-query-and-schema-defaults",
                        format!("call {call}: got {edge_name}[{}], query+defaults say {ename}[{}]", render_params(&params), render_params(&eparams)),
                    );
                }
            }
        }

        // Hint use at this site (buggify): decided per call.
        let (use_static, use_mand, use_dyn, depth) = {
            let mut s = self.sim.borrow_mut();
            let c = s.cfg.clone();
            if c.random && c.any_hints() {
                let st = c.hints_static && s.sched.draw(2) == 1;
                let md = c.hints_mandatory && s.sched.draw(2) == 1;
                let dy = c.hints_dynamic && s.sched.draw(2) == 1;
                (st, md, dy, c.hints_depth)
            } else {
                (false, false, false, 0)
            }
        };

        // (path to a nested destination: edge name + parameters, or None for the destination itself;
        //  property; per-context candidate)
        type Extras = Vec<(Option<(String, BTreeMap<String, FieldValue>)>, String, CandidateValue<FieldValue>)>;
        let mut input: Box<dyn Iterator<Item = (DataContext<V>, Extras)>> =
            Box::new(contexts.map(|c| (c, Vec::new())));
        if use_dyn {
            // The destination's properties, by the edge's declared target type.
            let dest_props: Vec<String> = tidx
                .and_then(|t| world.schema.edge(t, edge_name).map(|e| e.target))
                .map(|tt| {
                    // any property of any subtype of the target may carry a filter
                    let mut names = BTreeSet::new();
                    for st in world.schema.subtypes_of(tt) {
                        for p in &world.schema.types[st].props {
                            names.insert(p.name.clone());
                        }
                    }
                    names.into_iter().collect()
                })
                .unwrap_or_default();
            for p in dest_props {
                if shim_active("ignore_dynamic_hint_for_ge_tag_filters")
                    && self.sim.borrow().ge_tag_props.contains(&(dest_vid, p.clone()))
                {
                    continue;
                }
                if let Some(dynv) = dest.dynamically_required_property(&p) {
                    {
                        let mut s = self.sim.borrow_mut();
                        s.fires.f5_dynamic_consulted += 1;
                        if within_fold(&s, origin_vid) {
                            s.fires.dynamic_resolved_in_fold += 1;
                        }
                    }
                    let side: Rc<RefCell<VecDeque<Extras>>> = Rc::new(RefCell::new(VecDeque::new()));
                    let side_in = side.clone();
                    let ctx_stream: ContextIterator<'static, V> = Box::new(input.map(move |(c, ex)| {
                        side_in.borrow_mut().push_back(ex);
                        c
                    }));
                    let resolved = dynv.resolve(self, ctx_stream);
                    let pname = p.clone();
                    input = Box::new(resolved.map(move |(c, cand)| {
                        let mut ex = side.borrow_mut().pop_front().unwrap_or_else(|| {
                            std::panic::panic_any(HarnessBug("side queue underflow".into()))
                        });
                        ex.push((None, pname.clone(), cand));
                        (c, ex)
                    }));
                }
            }
            // Dynamic hints one level down: through a mandatory edge of the destination, via
            // EdgeInfo::destination().
            if use_mand && depth >= 1 {
                let target = tidx.and_then(|t| world.schema.edge(t, edge_name).map(|e| e.target));
                let mut edge_names = BTreeSet::new();
                if let Some(tt) = target {
                    for st in world.schema.subtypes_of(tt) {
                        for e2 in &world.schema.types[st].edges {
                            edge_names.insert((e2.name.clone(), e2.target));
                        }
                    }
                }
                for (e2name, e2target) in edge_names {
                    let infos: Vec<_> = dest.mandatory_edges_with_name(&e2name).collect();
                    for ei in infos {
                        let nested_vid = vid_num(ei.destination().vid());
                        let mut props2 = BTreeSet::new();
                        for st in world.schema.subtypes_of(e2target) {
                            for p in &world.schema.types[st].props {
                                props2.insert(p.name.clone());
                            }
                        }
                        for p2 in props2 {
                            if shim_active("ignore_dynamic_hint_for_ge_tag_filters")
                                && self.sim.borrow().ge_tag_props.contains(&(nested_vid, p2.clone()))
                            {
                                continue;
                            }
                            if let Some(dynv) = ei.destination().dynamically_required_property(&p2) {
                                {
                                    let mut s = self.sim.borrow_mut();
                                    s.fires.f5_dynamic_consulted += 1;
                                    s.fires.f5_nested_consulted += 1;
                                }
                                let side: Rc<RefCell<VecDeque<Extras>>> = Rc::new(RefCell::new(VecDeque::new()));
                                let side_in = side.clone();
                                let ctx_stream: ContextIterator<'static, V> = Box::new(input.map(move |(c, ex)| {
                                    side_in.borrow_mut().push_back(ex);
                                    c
                                }));
                                let resolved = dynv.resolve(self, ctx_stream);
                                let path = Some((e2name.clone(), params_map(ei.parameters())));
                                let pname = p2.clone();
                                input = Box::new(resolved.map(move |(c, cand)| {
                                    let mut ex = side.borrow_mut().pop_front().unwrap_or_else(|| {
                                        std::panic::panic_any(HarnessBug("side queue underflow".into()))
                                    });
                                    ex.push((path.clone(), pname.clone(), cand));
                                    (c, ex)
                                }));
                            }
                        }
                    }
                }
            }
        }

        let sim = self.sim.clone();
        let ename = edge_name.to_string();
        let tname = type_name.to_string();
        let eager = policy.eager_neighbors;
        let mut ctx_i: u64 = 0;
        let compute = Box::new(move |(ctx, extras): (DataContext<V>, Extras)| {
            let av = ctx.active_vertex::<Vx>().copied();
            check_active_vertex(&sim, call, av.as_ref(), tidx, &tname);
            let i = ctx_i;
            ctx_i += 1;
            let ns: Vec<Vx> = match av {
                None => vec![],
                Some(v) => {
                    let world = {
                        let mut s = sim.borrow_mut();
                        s.data_reads += 1;
                        s.world.clone()
                    };
                    let mut ns = world.neighbors(v, &ename, &params);
                    if use_static || use_mand {
                        ns.retain(|u| viable(&sim, &dest, *u, depth, use_static, use_mand, false));
                    }
                    if !extras.is_empty() {
                        ns.retain(|u| {
                            for (path, p, cand) in &extras {
                                let ok = match path {
                                    None => {
                                        let cty = world.concrete_type(*u);
                                        world.schema.prop(cty, p).is_none()
                                            || cand_contains(cand, &world.prop_fv(*u, p))
                                    }
                                    Some((e2, params2)) => {
                                        // some neighbor along the mandatory edge must be able to
                                        // satisfy the candidate
                                        world.neighbors(*u, e2, params2).iter().any(|w| {
                                            let wty = world.concrete_type(*w);
                                            world.schema.prop(wty, p).is_none()
                                                || cand_contains(cand, &world.prop_fv(*w, p))
                                        })
                                    }
                                };
                                if !ok {
                                    sim.borrow_mut().fires.f5_dynamic_pruned += 1;
                                    return false;
                                }
                            }
                            true
                        });
                    }
                    ns
                }
            };
            if eager && !ns.is_empty() {
                sim.borrow_mut().fires.f4_eager_neighbors += 1;
            }
            let it: VertexIterator<'static, Vx> = if eager {
                Box::new(ns.into_iter())
            } else {
                Box::new(NeighIter { sim: sim.clone(), call, ctx_i: i, items: ns.into_iter(), j: 0 })
            };
            (ctx, it)
        });
        let mut r = Resolver {
            sim: self.sim.clone(),
            call,
            input: Some(input),
            buf: VecDeque::new(),
            policy,
            compute,
            pulled: 0,
            yielded: 0,
        };
        r.prefetch_in_call();
        Box::new(r)
    }

    fn resolve_coercion<V: AsVertex<Self::Vertex> + 'static>(
        &self,
        contexts: ContextIterator<'static, V>,
        type_name: &Arc<str>,
        coerce_to_type: &Arc<str>,
        resolve_info: &ResolveInfo,
    ) -> ContextOutcomeIterator<'static, V, bool> {
        let vid = vid_num(resolve_info.vid());
        let (call, policy) = self.new_call(|c| {
            format!("CALL call={c} kind=coercion type={type_name} to={coerce_to_type} vid={vid}")
        });
        let tidx = self.type_idx_checked(call, type_name);
        let cidx = self.type_idx_checked(call, coerce_to_type);
        if let (Some(t), Some(c)) = (tidx, cidx) {
            let mut s = self.sim.borrow_mut();
            if !s.world.schema.is_subtype(c, t) {
                let key = (vid, type_name.to_string(), coerce_to_type.to_string());
                let class = if s.recursion_coercions.contains(&key) {
                    "recursion-implicit-coercion-to-edge-origin-type-that-is-not-a-subtype-of-the-edge-type"
                } else {
                    "coercion-target-not-a-subtype"
                };
                s.violation(
                    "C21",
                    class,
                    format!("call {call} (vid {vid}): coerce `{type_name}` to `{coerce_to_type}`"),
                );
            }
        }
        let sim = self.sim.clone();
        let tname = type_name.to_string();
        let compute = Box::new(move |ctx: DataContext<V>| {
            let av = ctx.active_vertex::<Vx>().copied();
            check_active_vertex(&sim, call, av.as_ref(), tidx, &tname);
            let ok = match (av, cidx) {
                (Some(v), Some(c)) => {
                    let mut s = sim.borrow_mut();
                    s.data_reads += 1;
                    s.world.is_instance(v, c)
                }
                _ => false,
            };
            (ctx, ok)
        });
        let mut r = Resolver {
            sim: self.sim.clone(),
            call,
            input: Some(contexts),
            buf: VecDeque::new(),
            policy,
            compute,
            pulled: 0,
            yielded: 0,
        };
        r.prefetch_in_call();
        Box::new(r)
    }
}

fn within_fold(s: &Sim, vid: usize) -> bool {
    // A vertex is inside a fold component iff some fold root vid <= vid has not been "closed"
    // before it; the harness passes the exact set of vids inside folds instead.
    s.fold_vids.contains(&vid)
}

fn same_params(a: &BTreeMap<String, FieldValue>, b: &BTreeMap<String, FieldValue>) -> bool {
    if a.len() != b.len() {
        return false;
    }
    a.iter().all(|(k, v)| match b.get(k) {
        Some(w) => Val::from_fv(v).same(&Val::from_fv(w)),
        None => false,
    })
}

fn check_params(
    s: &mut Sim,
    call: u32,
    edge_name: &str,
    defs: &[crate::world::ParamDef],
    got: &BTreeMap<String, FieldValue>,
) {
    for d in defs {
        match got.get(&d.name) {
            None => s.violation(
                "C21",
                "declared-edge-parameter-missing",
                format!("call {call}: `{edge_name}` without `{}`", d.name),
            ),
            Some(v) => {
                if !ty_admits(&d.ty, v) {
                    s.violation(
                        "C21",
                        "edge-parameter-value-not-of-declared-type",
                        format!("call {call}: `{edge_name}({}: {})` got {}", d.name, d.ty.render(), fv_render(v)),
                    );
                }
            }
        }
    }
    for k in got.keys() {
        if !defs.iter().any(|d| &d.name == k) {
            s.violation(
                "C21",
                "undeclared-edge-parameter",
                format!("call {call}: `{edge_name}` with undeclared `{k}`"),
            );
        }
    }
}

pub fn ty_admits(ty: &Ty, v: &FieldValue) -> bool {
    ty.admits(&Val::from_fv(v))
}
