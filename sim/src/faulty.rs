//! C25: the real `check_adapter_invariants` against a correct simulated adapter with exactly one
//! injected contract violation (F11). For a schema the single-fault space is finite and is
//! enumerated completely: resolver x site x fault kind x position.

use std::cell::{Cell, RefCell};
use std::collections::BTreeSet;
use std::panic::{AssertUnwindSafe, catch_unwind};
use std::rc::Rc;
use std::sync::Arc;

use trustfall_core::interpreter::helpers::check_adapter_invariants;
use trustfall_core::interpreter::{
    Adapter, AsVertex, ContextIterator, ContextOutcomeIterator, DataContext, ResolveEdgeInfo,
    ResolveInfo, VertexIterator,
};
use trustfall_core::ir::{EdgeParameters, FieldValue};
use trustfall_core::schema::Schema;

use crate::checks::{CaseResult, CaseStats, HarnessError, Violation};
use crate::runner::{build_world, take_panic};
use crate::tape::{Tapes, fnv1a, mix};
use crate::world::World;

#[derive(Clone, Copy, Debug, PartialEq, Eq, PartialOrd, Ord)]
pub enum Resolver {
    Property,
    Neighbors,
    Coercion,
}

#[derive(Clone, Copy, Debug, PartialEq, Eq, PartialOrd, Ord)]
pub enum FaultKind {
    SwapAdjacent,
    RotateLeft,
    Reverse,
    /// non-null property / one neighbor / `true` coercion for a context without an active vertex
    ValueForMissingVertex,
}

#[derive(Clone, Debug, PartialEq, Eq, PartialOrd, Ord)]
pub struct Fault {
    pub resolver: Resolver,
    pub type_name: String,
    /// property name, edge name, or coercion target
    pub field: String,
    pub kind: FaultKind,
    /// 0 first, 1 middle, 2 last
    pub position: u8,
}

pub struct FaultyAdapter {
    world: Rc<World>,
    fault: Option<Fault>,
    fired: Rc<Cell<bool>>,
    called_sites: Rc<RefCell<BTreeSet<(Resolver, String, String)>>>,
    /// pull the input in chunks of this size (0 = everything at once)
    chunk: usize,
}

fn pick(len: usize, position: u8) -> usize {
    match position {
        0 => 0,
        1 => len / 2,
        _ => len.saturating_sub(1),
    }
}

fn disturb_order<T>(v: &mut Vec<T>, kind: FaultKind, position: u8) -> bool {
    if v.len() < 2 {
        return false;
    }
    match kind {
        FaultKind::SwapAdjacent => {
            let i = pick(v.len() - 1, position);
            v.swap(i, i + 1);
            true
        }
        FaultKind::RotateLeft => {
            v.rotate_left(1);
            true
        }
        FaultKind::Reverse => {
            v.reverse();
            true
        }
        FaultKind::ValueForMissingVertex => false,
    }
}

impl FaultyAdapter {
    fn fault_here(&self, resolver: Resolver, type_name: &str, field: &str) -> Option<Fault> {
        self.called_sites.borrow_mut().insert((resolver, type_name.to_string(), field.to_string()));
        match &self.fault {
            Some(f) if f.resolver == resolver && f.type_name == type_name && f.field == field => {
                Some(f.clone())
            }
            _ => None,
        }
    }

    /// Pull the whole input (in chunks, never polling after `None`), compute outcomes, apply the
    /// fault if this is its site.
    fn run<V: AsVertex<u32> + 'static, O: 'static>(
        &self,
        contexts: ContextIterator<'static, V>,
        fault: Option<Fault>,
        mut correct: impl FnMut(&DataContext<V>) -> O,
        mut illegal_for_missing: impl FnMut() -> O,
    ) -> Box<dyn Iterator<Item = (DataContext<V>, O)>> {
        let mut input = Some(contexts);
        let mut ctxs: Vec<DataContext<V>> = vec![];
        let chunk = if self.chunk == 0 { usize::MAX } else { self.chunk };
        while let Some(it) = input.as_mut() {
            let mut got = 0;
            while got < chunk {
                match it.next() {
                    Some(c) => {
                        ctxs.push(c);
                        got += 1;
                    }
                    None => {
                        input = None;
                        break;
                    }
                }
            }
        }
        let missing: Vec<usize> = ctxs
            .iter()
            .enumerate()
            .filter(|(_, c)| c.active_vertex::<u32>().is_none())
            .map(|(i, _)| i)
            .collect();
        let mut out: Vec<(DataContext<V>, O)> = vec![];
        let target = match &fault {
            Some(f) if f.kind == FaultKind::ValueForMissingVertex && !missing.is_empty() => {
                Some(missing[pick(missing.len(), f.position)])
            }
            _ => None,
        };
        for (i, c) in ctxs.into_iter().enumerate() {
            let o = if Some(i) == target {
                self.fired.set(true);
                illegal_for_missing()
            } else {
                correct(&c)
            };
            out.push((c, o));
        }
        if let Some(f) = &fault {
            if disturb_order(&mut out, f.kind, f.position) {
                self.fired.set(true);
            }
        }
        Box::new(out.into_iter())
    }
}

impl Adapter<'static> for FaultyAdapter {
    type Vertex = u32;

    fn resolve_starting_vertices(
        &self,
        edge_name: &Arc<str>,
        parameters: &EdgeParameters,
        _resolve_info: &ResolveInfo,
    ) -> VertexIterator<'static, Self::Vertex> {
        let params = parameters.iter().map(|(k, v)| (k.to_string(), v.clone())).collect();
        Box::new(self.world.starting(edge_name, &params).into_iter())
    }

    fn resolve_property<V: AsVertex<Self::Vertex> + 'static>(
        &self,
        contexts: ContextIterator<'static, V>,
        type_name: &Arc<str>,
        property_name: &Arc<str>,
        _resolve_info: &ResolveInfo,
    ) -> ContextOutcomeIterator<'static, V, FieldValue> {
        let fault = self.fault_here(Resolver::Property, type_name, property_name);
        let world = self.world.clone();
        let pname = property_name.to_string();
        self.run(
            contexts,
            fault,
            move |c| match c.active_vertex::<u32>() {
                Some(v) => world.prop_fv(*v, &pname),
                None => FieldValue::Null,
            },
            || FieldValue::Int64(1),
        )
    }

    fn resolve_neighbors<V: AsVertex<Self::Vertex> + 'static>(
        &self,
        contexts: ContextIterator<'static, V>,
        type_name: &Arc<str>,
        edge_name: &Arc<str>,
        parameters: &EdgeParameters,
        _resolve_info: &ResolveEdgeInfo,
    ) -> ContextOutcomeIterator<'static, V, VertexIterator<'static, Self::Vertex>> {
        let fault = self.fault_here(Resolver::Neighbors, type_name, edge_name);
        let world = self.world.clone();
        let ename = edge_name.to_string();
        let params: std::collections::BTreeMap<String, FieldValue> =
            parameters.iter().map(|(k, v)| (k.to_string(), v.clone())).collect();
        self.run(
            contexts,
            fault,
            move |c| -> VertexIterator<'static, u32> {
                match c.active_vertex::<u32>() {
                    Some(v) => Box::new(world.neighbors(*v, &ename, &params).into_iter()),
                    None => Box::new(std::iter::empty()),
                }
            },
            || -> VertexIterator<'static, u32> { Box::new(std::iter::once(0u32)) },
        )
    }

    fn resolve_coercion<V: AsVertex<Self::Vertex> + 'static>(
        &self,
        contexts: ContextIterator<'static, V>,
        type_name: &Arc<str>,
        coerce_to_type: &Arc<str>,
        _resolve_info: &ResolveInfo,
    ) -> ContextOutcomeIterator<'static, V, bool> {
        let fault = self.fault_here(Resolver::Coercion, type_name, coerce_to_type);
        let world = self.world.clone();
        let target = world.schema.type_index(coerce_to_type);
        self.run(
            contexts,
            fault,
            move |c| match (c.active_vertex::<u32>(), target) {
                (Some(v), Some(t)) => world.is_instance(*v, t),
                _ => false,
            },
            || true,
        )
    }
}

/// Sites the checker's documentation says are checked.
pub fn documented_sites(world: &World) -> Vec<(Resolver, String, String)> {
    let mut out = vec![];
    for t in &world.schema.types {
        for p in &t.props {
            out.push((Resolver::Property, t.name.clone(), p.name.clone()));
        }
        out.push((Resolver::Property, t.name.clone(), "__typename".to_string()));
        for e in &t.edges {
            // "Edges that take any non-nullable parameters without specified default values are
            // not checked."
            let unchecked = e.params.iter().any(|p| p.default.is_none() && !p.ty.nullable());
            if !unchecked {
                out.push((Resolver::Neighbors, t.name.clone(), e.name.clone()));
            }
        }
        for sup in &t.implements {
            out.push((Resolver::Coercion, world.schema.types[*sup].name.clone(), t.name.clone()));
        }
    }
    out
}

fn run_checker(schema: &Schema, adapter: FaultyAdapter) -> Result<(), crate::runner::PanicInfo> {
    take_panic();
    match catch_unwind(AssertUnwindSafe(|| check_adapter_invariants(schema, adapter))) {
        Ok(()) => Ok(()),
        Err(_) => Err(take_panic().unwrap_or(crate::runner::PanicInfo {
            message: "?".into(),
            location: "?".into(),
        })),
    }
}

pub fn case_c25(tapes: &mut Tapes) -> Result<CaseResult, HarnessError> {
    let (world, schema_text) = build_world(tapes);
    let schema = Schema::parse(&schema_text)
        .map_err(|e| HarnessError(format!("generated schema rejected: {e}\n{schema_text}")))?;
    let chunk = [0usize, 1, 2, 3, 4][tapes.fault.draw(5) as usize];
    let mut stats = CaseStats::default();
    let mut violations = vec![];
    let mk = |fault: Option<Fault>| {
        let fired = Rc::new(Cell::new(false));
        let called = Rc::new(RefCell::new(BTreeSet::new()));
        (
            FaultyAdapter {
                world: world.clone(),
                fault,
                fired: fired.clone(),
                called_sites: called.clone(),
                chunk,
            },
            fired,
            called,
        )
    };
    // No fault: the checker must return.
    let (adapter, _, called) = mk(None);
    stats.execs += 1;
    if let Err(info) = run_checker(&schema, adapter) {
        if info.location.starts_with("src/") {
            return Err(HarnessError(format!("{} at {}", info.message, info.location)));
        }
        violations.push(Violation {
            property: "C25".into(),
            class: "checker-rejects-contract-abiding-adapter".into(),
            detail: format!("chunk={chunk}: panicked at {}: {}", info.location, info.message.lines().next().unwrap_or("")),
            fingerprint: format!("checker-rejects-contract-abiding-adapter|{}", info.fingerprint()),
        });
    }
    let called_sites = called.borrow().clone();
    let documented = documented_sites(&world);
    for site in &documented {
        if !called_sites.contains(site) {
            violations.push(Violation {
                property: "C25".into(),
                class: "documented-site-not-exercised-by-the-checker".into(),
                detail: format!("{:?} {}.{} was never called", site.0, site.1, site.2),
                fingerprint: format!("documented-site-not-exercised|{:?}", site.0),
            });
            break;
        }
    }
    // Every single fault at every site the checker reaches.
    let mut n_faults = 0u64;
    let mut n_fired = 0u64;
    let mut sample = None;
    for (resolver, type_name, field) in called_sites.iter().cloned() {
        for kind in [
            FaultKind::SwapAdjacent,
            FaultKind::RotateLeft,
            FaultKind::Reverse,
            FaultKind::ValueForMissingVertex,
        ] {
            let positions: &[u8] = match kind {
                FaultKind::RotateLeft | FaultKind::Reverse => &[0],
                _ => &[0, 1, 2],
            };
            for &position in positions {
                let fault = Fault { resolver, type_name: type_name.clone(), field: field.clone(), kind, position };
                let (adapter, fired, _) = mk(Some(fault.clone()));
                n_faults += 1;
                stats.execs += 1;
                let res = run_checker(&schema, adapter);
                if let Err(info) = &res {
                    if info.location.starts_with("src/") {
                        return Err(HarnessError(format!("{} at {}", info.message, info.location)));
                    }
                }
                if fired.get() {
                    n_fired += 1;
                    if sample.is_none() {
                        sample = Some(format!("{fault:?}"));
                    }
                    if res.is_ok() {
                        violations.push(Violation {
                            property: "C25".into(),
                            class: "checker-misses-injected-contract-violation".into(),
                            detail: format!("chunk={chunk}: {fault:?} fired and check_adapter_invariants returned normally"),
                            fingerprint: format!("checker-misses|{resolver:?}|{kind:?}"),
                        });
                    }
                } else if res.is_err() {
                    let info = res.unwrap_err();
                    violations.push(Violation {
                        property: "C25".into(),
                        class: "checker-fails-although-the-fault-did-not-fire".into(),
                        detail: format!("{fault:?}: panicked at {}: {}", info.location, info.message.lines().next().unwrap_or("")),
                        fingerprint: format!("checker-fails-unfired|{}", info.fingerprint()),
                    });
                }
            }
        }
    }
    let mut seen = BTreeSet::new();
    violations.retain(|v| seen.insert(v.fingerprint.clone()));
    stats.events = n_faults;
    stats.rows = n_fired as usize;
    stats.nontrivial = n_fired > 0;
    stats.case_digest = mix(fnv1a(schema_text.as_bytes()), chunk as u64);
    stats.probes.insert(format!("chunk_{chunk}"));
    stats.sample = Some(serde_json::json!({
        "schema_types": world.schema.types.iter().map(|t| t.name.clone()).collect::<Vec<_>>(),
        "sites_reached_by_checker": called_sites.len(),
        "documented_sites": documented.len(),
        "single_faults_enumerated": n_faults,
        "faults_that_fired": n_fired,
        "input_chunk_size": chunk,
        "example_fault": sample,
    }));
    Ok(CaseResult { violations, stats })
}
