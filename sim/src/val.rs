//! Abstract values and types of the harness, independent of trustfall's `FieldValue`/`Type`,
//! plus the reference definition of every filter operator (Appendix F of DESIGN.md).

use std::cmp::Ordering;
use std::sync::Arc;

use trustfall_core::ir::FieldValue;

#[derive(Clone, Debug)]
pub enum Val {
    Null,
    Int(i128),
    Float(f64),
    Str(String),
    Bool(bool),
    List(Vec<Val>),
}

impl Val {
    pub fn from_fv(v: &FieldValue) -> Val {
        match v {
            FieldValue::Null => Val::Null,
            FieldValue::Int64(i) => Val::Int(*i as i128),
            FieldValue::Uint64(u) => Val::Int(*u as i128),
            FieldValue::Float64(f) => Val::Float(*f),
            FieldValue::String(s) => Val::Str(s.to_string()),
            FieldValue::Boolean(b) => Val::Bool(*b),
            FieldValue::Enum(s) => Val::Str(format!("enum:{s}")),
            FieldValue::List(l) => Val::List(l.iter().map(Val::from_fv).collect()),
            _ => Val::Str("<unknown FieldValue variant>".to_string()),
        }
    }

    fn rank(&self) -> u8 {
        match self {
            Val::Null => 0,
            Val::Int(_) => 1,
            Val::Float(_) => 2,
            Val::Str(_) => 3,
            Val::Bool(_) => 4,
            Val::List(_) => 5,
        }
    }

    /// A total order used only for sorting rows into a canonical multiset form.
    pub fn total_cmp(&self, other: &Val) -> Ordering {
        match (self, other) {
            (Val::Null, Val::Null) => Ordering::Equal,
            (Val::Int(a), Val::Int(b)) => a.cmp(b),
            (Val::Float(a), Val::Float(b)) => a.total_cmp(b),
            (Val::Str(a), Val::Str(b)) => a.cmp(b),
            (Val::Bool(a), Val::Bool(b)) => a.cmp(b),
            (Val::List(a), Val::List(b)) => {
                for (x, y) in a.iter().zip(b.iter()) {
                    let c = x.total_cmp(y);
                    if c != Ordering::Equal {
                        return c;
                    }
                }
                a.len().cmp(&b.len())
            }
            _ => self.rank().cmp(&other.rank()),
        }
    }

    /// Identity of values as far as result comparison goes: integers by numeric value.
    pub fn same(&self, other: &Val) -> bool {
        self.total_cmp(other) == Ordering::Equal
    }

    pub fn render(&self) -> String {
        match self {
            Val::Null => "null".to_string(),
            Val::Int(i) => i.to_string(),
            Val::Float(f) => format!("{f:?}"),
            Val::Str(s) => format!("{s:?}"),
            Val::Bool(b) => b.to_string(),
            Val::List(l) => {
                format!("[{}]", l.iter().map(|x| x.render()).collect::<Vec<_>>().join(", "))
            }
        }
    }

    pub fn to_json(&self) -> serde_json::Value {
        match self {
            Val::Null => serde_json::Value::Null,
            Val::Int(i) => {
                if let Ok(x) = i64::try_from(*i) {
                    serde_json::Value::from(x)
                } else if let Ok(x) = u64::try_from(*i) {
                    serde_json::Value::from(x)
                } else {
                    serde_json::Value::String(i.to_string())
                }
            }
            Val::Float(f) => serde_json::Value::from(*f),
            Val::Str(s) => serde_json::Value::String(s.clone()),
            Val::Bool(b) => serde_json::Value::Bool(*b),
            Val::List(l) => serde_json::Value::Array(l.iter().map(|x| x.to_json()).collect()),
        }
    }
}

pub fn fv_render(v: &FieldValue) -> String {
    match v {
        FieldValue::Null => "null".into(),
        FieldValue::Int64(i) => format!("{i}i"),
        FieldValue::Uint64(u) => format!("{u}u"),
        FieldValue::Float64(f) => format!("{f:?}"),
        FieldValue::String(s) => format!("{s:?}"),
        FieldValue::Boolean(b) => b.to_string(),
        FieldValue::Enum(s) => format!("enum:{s}"),
        FieldValue::List(l) => {
            format!("[{}]", l.iter().map(fv_render).collect::<Vec<_>>().join(", "))
        }
        _ => "<?>".into(),
    }
}

/// GraphQL literal for use inside query text (edge parameters).
pub fn fv_graphql_literal(v: &FieldValue) -> String {
    match v {
        FieldValue::Null => "null".into(),
        FieldValue::Int64(i) => i.to_string(),
        FieldValue::Uint64(u) => u.to_string(),
        FieldValue::Float64(f) => format!("{f:?}"),
        FieldValue::String(s) => format!("{:?}", s.as_ref()),
        FieldValue::Boolean(b) => b.to_string(),
        FieldValue::Enum(s) => s.to_string(),
        FieldValue::List(l) => {
            format!("[{}]", l.iter().map(fv_graphql_literal).collect::<Vec<_>>().join(", "))
        }
        _ => "null".into(),
    }
}

#[derive(Clone, Copy, Debug, PartialEq, Eq, PartialOrd, Ord, Hash)]
pub enum Base {
    Int,
    Float,
    Str,
    Bool,
}

impl Base {
    pub fn name(&self) -> &'static str {
        match self {
            Base::Int => "Int",
            Base::Float => "Float",
            Base::Str => "String",
            Base::Bool => "Boolean",
        }
    }
}

#[derive(Clone, Debug, PartialEq, Eq, PartialOrd, Ord, Hash)]
pub enum Ty {
    Named(Base, bool),
    List(Box<Ty>, bool),
}

impl Ty {
    pub fn named(b: Base, nullable: bool) -> Ty {
        Ty::Named(b, nullable)
    }
    pub fn list(inner: Ty, nullable: bool) -> Ty {
        Ty::List(Box::new(inner), nullable)
    }
    pub fn nullable(&self) -> bool {
        match self {
            Ty::Named(_, n) | Ty::List(_, n) => *n,
        }
    }
    pub fn with_nullable(&self, n: bool) -> Ty {
        match self {
            Ty::Named(b, _) => Ty::Named(*b, n),
            Ty::List(i, _) => Ty::List(i.clone(), n),
        }
    }
    pub fn is_list(&self) -> bool {
        matches!(self, Ty::List(..))
    }
    pub fn elem(&self) -> Option<&Ty> {
        match self {
            Ty::List(i, _) => Some(i),
            _ => None,
        }
    }
    pub fn base(&self) -> Base {
        match self {
            Ty::Named(b, _) => *b,
            Ty::List(i, _) => i.base(),
        }
    }
    pub fn depth(&self) -> usize {
        match self {
            Ty::Named(..) => 0,
            Ty::List(i, _) => 1 + i.depth(),
        }
    }
    pub fn render(&self) -> String {
        match self {
            Ty::Named(b, n) => format!("{}{}", b.name(), if *n { "" } else { "!" }),
            Ty::List(i, n) => format!("[{}]{}", i.render(), if *n { "" } else { "!" }),
        }
    }
    pub fn parse(s: &str) -> Option<Ty> {
        let s = s.trim();
        let (body, nullable) = match s.strip_suffix('!') {
            Some(b) => (b, false),
            None => (s, true),
        };
        if let Some(inner) = body.strip_prefix('[') {
            let inner = inner.strip_suffix(']')?;
            Some(Ty::List(Box::new(Ty::parse(inner)?), nullable))
        } else {
            let b = match body {
                "Int" => Base::Int,
                "Float" => Base::Float,
                "String" => Base::Str,
                "Boolean" => Base::Bool,
                _ => return None,
            };
            Some(Ty::Named(b, nullable))
        }
    }
    /// Same shape and base, ignoring nullability at every level.
    pub fn eq_ignoring_nullability(&self, other: &Ty) -> bool {
        match (self, other) {
            (Ty::Named(a, _), Ty::Named(b, _)) => a == b,
            (Ty::List(a, _), Ty::List(b, _)) => a.eq_ignoring_nullability(b),
            _ => false,
        }
    }
    /// Validity of a value for a type, re-implemented from the type's text.
    pub fn admits(&self, v: &Val) -> bool {
        match (self, v) {
            (t, Val::Null) => t.nullable(),
            (Ty::Named(Base::Int, _), Val::Int(i)) => {
                *i >= i64::MIN as i128 && *i <= u64::MAX as i128
            }
            (Ty::Named(Base::Float, _), Val::Float(f)) => f.is_finite(),
            (Ty::Named(Base::Str, _), Val::Str(_)) => true,
            (Ty::Named(Base::Bool, _), Val::Bool(_)) => true,
            (Ty::List(inner, _), Val::List(l)) => l.iter().all(|x| inner.admits(x)),
            _ => false,
        }
    }
    /// Greatest common subtype w.r.t. nullability (same shape required).
    pub fn intersect(&self, other: &Ty) -> Option<Ty> {
        match (self, other) {
            (Ty::Named(a, n1), Ty::Named(b, n2)) if a == b => Some(Ty::Named(*a, *n1 && *n2)),
            (Ty::List(a, n1), Ty::List(b, n2)) => {
                Some(Ty::List(Box::new(a.intersect(b)?), *n1 && *n2))
            }
            _ => None,
        }
    }
}

pub fn mk_str(s: &str) -> FieldValue {
    FieldValue::String(Arc::from(s))
}

// ---------------------------------------------------------------------------------------------
// Reference definition of the filter operators.

#[derive(Clone, Copy, Debug, PartialEq, Eq, PartialOrd, Ord, Hash)]
pub enum Op {
    IsNull,
    IsNotNull,
    Eq,
    Ne,
    Lt,
    Le,
    Gt,
    Ge,
    Contains,
    NotContains,
    OneOf,
    NotOneOf,
    HasPrefix,
    NotHasPrefix,
    HasSuffix,
    NotHasSuffix,
    HasSubstring,
    NotHasSubstring,
    Regex,
    NotRegex,
}

pub const ALL_OPS: [Op; 20] = [
    Op::IsNull,
    Op::IsNotNull,
    Op::Eq,
    Op::Ne,
    Op::Lt,
    Op::Le,
    Op::Gt,
    Op::Ge,
    Op::Contains,
    Op::NotContains,
    Op::OneOf,
    Op::NotOneOf,
    Op::HasPrefix,
    Op::NotHasPrefix,
    Op::HasSuffix,
    Op::NotHasSuffix,
    Op::HasSubstring,
    Op::NotHasSubstring,
    Op::Regex,
    Op::NotRegex,
];

impl Op {
    pub fn name(&self) -> &'static str {
        match self {
            Op::IsNull => "is_null",
            Op::IsNotNull => "is_not_null",
            Op::Eq => "=",
            Op::Ne => "!=",
            Op::Lt => "<",
            Op::Le => "<=",
            Op::Gt => ">",
            Op::Ge => ">=",
            Op::Contains => "contains",
            Op::NotContains => "not_contains",
            Op::OneOf => "one_of",
            Op::NotOneOf => "not_one_of",
            Op::HasPrefix => "has_prefix",
            Op::NotHasPrefix => "not_has_prefix",
            Op::HasSuffix => "has_suffix",
            Op::NotHasSuffix => "not_has_suffix",
            Op::HasSubstring => "has_substring",
            Op::NotHasSubstring => "not_has_substring",
            Op::Regex => "regex",
            Op::NotRegex => "not_regex",
        }
    }
    pub fn unary(&self) -> bool {
        matches!(self, Op::IsNull | Op::IsNotNull)
    }
    pub fn negation(&self) -> Op {
        match self {
            Op::IsNull => Op::IsNotNull,
            Op::IsNotNull => Op::IsNull,
            Op::Eq => Op::Ne,
            Op::Ne => Op::Eq,
            Op::Lt => Op::Ge,
            Op::Le => Op::Gt,
            Op::Gt => Op::Le,
            Op::Ge => Op::Lt,
            Op::Contains => Op::NotContains,
            Op::NotContains => Op::Contains,
            Op::OneOf => Op::NotOneOf,
            Op::NotOneOf => Op::OneOf,
            Op::HasPrefix => Op::NotHasPrefix,
            Op::NotHasPrefix => Op::HasPrefix,
            Op::HasSuffix => Op::NotHasSuffix,
            Op::NotHasSuffix => Op::HasSuffix,
            Op::HasSubstring => Op::NotHasSubstring,
            Op::NotHasSubstring => Op::HasSubstring,
            Op::Regex => Op::NotRegex,
            Op::NotRegex => Op::Regex,
        }
    }
    /// True when `negation()` is the exact complement on every operand pair (ordering operators
    /// are not: both `<` and `>=` are false when an operand is null).
    pub fn has_exact_complement(&self) -> bool {
        !matches!(self, Op::Lt | Op::Le | Op::Gt | Op::Ge)
    }
}

/// Null-safe equality; integers by numeric value; lists element-wise.
pub fn val_eq(a: &Val, b: &Val) -> bool {
    match (a, b) {
        (Val::Null, Val::Null) => true,
        (Val::Int(x), Val::Int(y)) => x == y,
        (Val::Float(x), Val::Float(y)) => x == y,
        (Val::Str(x), Val::Str(y)) => x == y,
        (Val::Bool(x), Val::Bool(y)) => x == y,
        (Val::List(x), Val::List(y)) => {
            x.len() == y.len() && x.iter().zip(y.iter()).all(|(p, q)| val_eq(p, q))
        }
        _ => false,
    }
}

/// Ordering of two non-null scalars of the same kind; None when not comparable by definition
/// (lists, booleans, mixed kinds): the documents define no order there.
pub fn val_cmp(a: &Val, b: &Val) -> Option<Ordering> {
    match (a, b) {
        (Val::Int(x), Val::Int(y)) => Some(x.cmp(y)),
        (Val::Float(x), Val::Float(y)) => x.partial_cmp(y),
        (Val::Str(x), Val::Str(y)) => Some(x.cmp(y)),
        _ => None,
    }
}

#[derive(Debug, Clone, PartialEq, Eq)]
pub enum Holds {
    Yes,
    No,
    /// The documents do not define the outcome (invalid regex pattern, ordering of lists).
    Undefined(&'static str),
}

impl Holds {
    fn from_bool(b: bool) -> Holds {
        if b { Holds::Yes } else { Holds::No }
    }
    fn not(self) -> Holds {
        match self {
            Holds::Yes => Holds::No,
            Holds::No => Holds::Yes,
            u => u,
        }
    }
}

pub fn holds(op: Op, l: &Val, r: &Val) -> Holds {
    match op {
        Op::IsNull => Holds::from_bool(matches!(l, Val::Null)),
        Op::IsNotNull => Holds::from_bool(!matches!(l, Val::Null)),
        Op::Eq => Holds::from_bool(val_eq(l, r)),
        Op::Ne => Holds::from_bool(!val_eq(l, r)),
        Op::Lt | Op::Le | Op::Gt | Op::Ge => {
            if matches!(l, Val::Null) || matches!(r, Val::Null) {
                return Holds::No;
            }
            match val_cmp(l, r) {
                None => Holds::Undefined("ordering of non-scalar operands"),
                Some(c) => Holds::from_bool(match op {
                    Op::Lt => c == Ordering::Less,
                    Op::Le => c != Ordering::Greater,
                    Op::Gt => c == Ordering::Greater,
                    Op::Ge => c != Ordering::Less,
                    _ => unreachable!(),
                }),
            }
        }
        Op::OneOf => match r {
            Val::List(items) => Holds::from_bool(items.iter().any(|x| val_eq(l, x))),
            _ => Holds::No,
        },
        Op::NotOneOf => holds(Op::OneOf, l, r).not(),
        Op::Contains => holds(Op::OneOf, r, l),
        Op::NotContains => holds(Op::Contains, l, r).not(),
        Op::HasPrefix => match (l, r) {
            (Val::Str(a), Val::Str(b)) => Holds::from_bool(a.starts_with(b.as_str())),
            _ => Holds::No,
        },
        Op::NotHasPrefix => holds(Op::HasPrefix, l, r).not(),
        Op::HasSuffix => match (l, r) {
            (Val::Str(a), Val::Str(b)) => Holds::from_bool(a.ends_with(b.as_str())),
            _ => Holds::No,
        },
        Op::NotHasSuffix => holds(Op::HasSuffix, l, r).not(),
        Op::HasSubstring => match (l, r) {
            (Val::Str(a), Val::Str(b)) => Holds::from_bool(a.contains(b.as_str())),
            _ => Holds::No,
        },
        Op::NotHasSubstring => holds(Op::HasSubstring, l, r).not(),
        Op::Regex => match (l, r) {
            (Val::Str(a), Val::Str(b)) => match regex::Regex::new(b) {
                Ok(re) => Holds::from_bool(re.is_match(a)),
                Err(_) => Holds::Undefined("invalid regex pattern"),
            },
            (_, Val::Str(b)) if regex::Regex::new(b).is_err() => {
                Holds::Undefined("invalid regex pattern")
            }
            _ => Holds::No,
        },
        Op::NotRegex => holds(Op::Regex, l, r).not(),
    }
}
