//! One integer decides everything: PRNG + recorded choice tapes.
//!
//! Every random decision of a run is a `draw(n)` on one of five tapes. In generation mode a draw
//! comes from a PRNG seeded from (VERIF_SEED, run index, tape id) and is recorded; in replay mode
//! draws are read back from the recorded vector (0 once exhausted). A run is a pure function of
//! the code and its five tapes.

#[derive(Clone, Debug)]
pub struct Rng {
    s: [u64; 4],
}

fn splitmix64(x: &mut u64) -> u64 {
    *x = x.wrapping_add(0x9E3779B97F4A7C15);
    let mut z = *x;
    z = (z ^ (z >> 30)).wrapping_mul(0xBF58476D1CE4E5B9);
    z = (z ^ (z >> 27)).wrapping_mul(0x94D049BB133111EB);
    z ^ (z >> 31)
}

impl Rng {
    pub fn new(seed: u64) -> Self {
        let mut x = seed;
        let s = [splitmix64(&mut x), splitmix64(&mut x), splitmix64(&mut x), splitmix64(&mut x)];
        Rng { s }
    }
    /// xoshiro256**
    pub fn next_u64(&mut self) -> u64 {
        let result = self.s[1].wrapping_mul(5).rotate_left(7).wrapping_mul(9);
        let t = self.s[1] << 17;
        self.s[2] ^= self.s[0];
        self.s[3] ^= self.s[1];
        self.s[1] ^= self.s[2];
        self.s[0] ^= self.s[3];
        self.s[2] ^= t;
        self.s[3] = self.s[3].rotate_left(45);
        result
    }
}

pub fn mix(a: u64, b: u64) -> u64 {
    let mut x = a ^ b.wrapping_mul(0x9E3779B97F4A7C15).rotate_left(23);
    splitmix64(&mut x)
}

#[derive(Clone, Debug)]
pub struct Tape {
    pub rec: Vec<u32>,
    pos: usize,
    rng: Option<Rng>,
}

impl Tape {
    pub fn generating(seed: u64) -> Self {
        Tape { rec: Vec::new(), pos: 0, rng: Some(Rng::new(seed)) }
    }
    pub fn replaying(rec: Vec<u32>) -> Self {
        Tape { rec, pos: 0, rng: None }
    }
    /// Uniform-ish value in 0..n (n >= 1).
    pub fn draw(&mut self, n: u32) -> u32 {
        debug_assert!(n >= 1);
        if n <= 1 {
            // Still consumes a slot so that shrinking one decision does not shift the others.
            if self.rng.is_some() {
                self.rec.push(0);
            }
            self.pos += 1;
            return 0;
        }
        match &mut self.rng {
            Some(rng) => {
                let v = (rng.next_u64() % (n as u64)) as u32;
                self.rec.push(v);
                self.pos += 1;
                v
            }
            None => {
                let v = self.rec.get(self.pos).copied().unwrap_or(0) % n;
                self.pos += 1;
                v
            }
        }
    }
    /// true with probability num/den
    pub fn chance(&mut self, num: u32, den: u32) -> bool {
        // Convention: 0 is always "the simple choice" => false.
        let v = self.draw(den);
        v >= den - num
    }
    pub fn consumed(&self) -> usize {
        self.pos
    }
    pub fn recorded(&self) -> Vec<u32> {
        match &self.rng {
            Some(_) => self.rec.clone(),
            None => {
                let mut r = self.rec.clone();
                r.truncate(self.pos.min(r.len()));
                r
            }
        }
    }
}

pub const TAPE_NAMES: [&str; 5] = ["world", "query", "args", "sched", "fault"];

#[derive(Clone, Debug)]
pub struct Tapes {
    pub world: Tape,
    pub query: Tape,
    pub args: Tape,
    pub sched: Tape,
    pub fault: Tape,
}

impl Tapes {
    pub fn generating(seed: u64, run: u64) -> Self {
        let base = mix(seed, run);
        Tapes {
            world: Tape::generating(mix(base, 1)),
            query: Tape::generating(mix(base, 2)),
            args: Tape::generating(mix(base, 3)),
            sched: Tape::generating(mix(base, 4)),
            fault: Tape::generating(mix(base, 5)),
        }
    }
    pub fn replaying(v: &[Vec<u32>; 5]) -> Self {
        Tapes {
            world: Tape::replaying(v[0].clone()),
            query: Tape::replaying(v[1].clone()),
            args: Tape::replaying(v[2].clone()),
            sched: Tape::replaying(v[3].clone()),
            fault: Tape::replaying(v[4].clone()),
        }
    }
    pub fn recorded(&self) -> [Vec<u32>; 5] {
        [
            self.world.recorded(),
            self.query.recorded(),
            self.args.recorded(),
            self.sched.recorded(),
            self.fault.recorded(),
        ]
    }
}

pub fn fnv1a(data: &[u8]) -> u64 {
    let mut h: u64 = 0xcbf29ce484222325;
    for b in data {
        h ^= *b as u64;
        h = h.wrapping_mul(0x100000001b3);
    }
    h
}

#[derive(Clone, Copy, Debug)]
pub struct Digest(pub u64);
impl Digest {
    pub fn new() -> Self {
        Digest(0xcbf29ce484222325)
    }
    pub fn add_bytes(&mut self, data: &[u8]) {
        for b in data {
            self.0 ^= *b as u64;
            self.0 = self.0.wrapping_mul(0x100000001b3);
        }
    }
    pub fn add_str(&mut self, s: &str) {
        self.add_bytes(s.as_bytes());
        self.add_bytes(&[0xff]);
    }
    pub fn add_u64(&mut self, v: u64) {
        self.add_bytes(&v.to_le_bytes());
    }
}
