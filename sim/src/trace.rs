//! C15: record -> persist -> lose the source -> replay.

use crate::checks::{CaseBridge, HarnessError};
use crate::tape::Tape;

pub fn case_c15(_cx: &mut CaseBridge<'_, '_>, _sched: &mut Tape) -> Result<(), HarnessError> {
    Err(HarnessError("C15 not built yet".into()))
}
