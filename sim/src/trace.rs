//! C15: record -> persist -> lose the source -> replay.
//!
//! The trace is a recorded history of the engine<->adapter pull protocol and
//! `assert_interpreted_results` is its replayer, so the check is: run through
//! `AdapterTap<SimAdapter>`, rows must equal the untapped run; serialise to RON, deserialise,
//! compare; replay from the deserialised trace alone (the simulated data source must see no
//! event); also replay a cancelled prefix with `complete = false`.

use std::cell::RefCell;
use std::collections::BTreeMap;
use std::panic::{AssertUnwindSafe, catch_unwind};
use std::rc::Rc;
use std::sync::Arc;

use trustfall_core::interpreter::execution::interpret_ir;
use trustfall_core::interpreter::replay::assert_interpreted_results;
use trustfall_core::interpreter::trace::{AdapterTap, Trace, tap_results};
use trustfall_core::ir::FieldValue;

use crate::adapter::{EventCapExceeded, HarnessBug, SchedCfg, SimAdapter};
use crate::checks::{CaseBridge, HarnessError, Violation, ending_name, harness_check_pub};
use crate::runner::{Ending, ExecOpts, exec, make_sim, row_to_model, take_panic};
use crate::tape::Tape;

type RawRow = BTreeMap<Arc<str>, FieldValue>;

enum TapOutcome {
    Ok { rows: Vec<RawRow>, trace: Trace<u32>, stopped: bool, events: u64 },
    Panic(crate::runner::PanicInfo),
    Cap,
    Harness(String),
}

fn tapped_run(
    cx: &CaseBridge<'_, '_>,
    cfg: SchedCfg,
    sched: &mut Tape,
    stop_after: Option<usize>,
) -> (TapOutcome, Rc<RefCell<crate::adapter::Sim>>) {
    let w = cx.w;
    let t = std::mem::replace(sched, Tape::replaying(vec![]));
    let sim = make_sim(w, cfg, t, false, cx.model.event_cap());
    let adapter = SimAdapter::new(sim.clone());
    let trace = Trace::new(w.compiled.ir_query.clone(), w.args.clone());
    let tracer = Rc::new(RefCell::new(trace));
    #[allow(clippy::arc_with_non_send_sync)]
    let tap = Arc::new(AdapterTap::new(adapter, tracer));
    take_panic();
    let res = catch_unwind(AssertUnwindSafe(|| {
        let it = interpret_ir(tap.clone(), w.compiled.clone(), w.args_arc.clone())
            .map_err(|e| format!("{e}"))?;
        let mut it = tap_results(tap.clone(), it);
        let mut rows = vec![];
        let mut stopped = false;
        loop {
            if let Some(k) = stop_after {
                if rows.len() >= k {
                    stopped = true;
                    break;
                }
            }
            match it.next() {
                Some(r) => rows.push(r),
                None => break,
            }
            if rows.len() > 6000 {
                std::panic::panic_any(EventCapExceeded);
            }
        }
        drop(it);
        Ok::<_, String>((rows, stopped))
    }));
    *sched = sim.try_borrow().map(|s| s.sched.clone()).unwrap_or_else(|_| Tape::replaying(vec![]));
    let out = match res {
        Ok(Ok((rows, stopped))) => match Arc::try_unwrap(tap) {
            Ok(tap) => {
                let trace = tap.finish();
                let events = sim.borrow().events;
                TapOutcome::Ok { rows, trace, stopped, events }
            }
            Err(_) => TapOutcome::Harness("AdapterTap still shared after the run".into()),
        },
        Ok(Err(e)) => TapOutcome::Harness(format!("arguments rejected in tapped run only: {e}")),
        Err(p) => {
            if p.downcast_ref::<EventCapExceeded>().is_some() {
                TapOutcome::Cap
            } else if let Some(h) = p.downcast_ref::<HarnessBug>() {
                TapOutcome::Harness(h.0.clone())
            } else {
                let info = take_panic().unwrap_or(crate::runner::PanicInfo {
                    message: "?".into(),
                    location: "?".into(),
                });
                if info.location.starts_with("src/") {
                    TapOutcome::Harness(format!("{} at {}", info.message, info.location))
                } else {
                    TapOutcome::Panic(info)
                }
            }
        }
    };
    (out, sim)
}

pub fn case_c15(cx: &mut CaseBridge<'_, '_>, sched: &mut Tape) -> Result<(), HarnessError> {
    let w = cx.w;
    // direct execution, lazy schedule
    let direct = {
        let mut o = ExecOpts::new(SchedCfg::lazy());
        o.event_cap = cx.model.event_cap();
        let t = std::mem::replace(sched, Tape::replaying(vec![]));
        let e = exec(w, o, t);
        *sched = e.sched.clone();
        harness_check_pub(&e)?;
        cx.absorb(&e);
        e
    };
    if matches!(direct.ending, Ending::ArgsRejected(_)) {
        cx.stats.discarded = Some("args_rejected".into());
        return Ok(());
    }
    if !matches!(direct.ending, Ending::Completed) {
        cx.stats.inconclusive.push(format!("direct: {}", ending_name(&direct)));
        return Ok(());
    }
    let n = direct.raw_rows.len();
    // schedule below the tap: S0, or read-ahead inside next() (F2/F3), eager neighbor iterators
    let cfg = if sched.draw(2) == 1 {
        let mut c = SchedCfg { random: true, ..Default::default() };
        c.allow_refill = true;
        c.allow_eager_neighbors = sched.draw(2) == 1;
        c.allow_start_collect = sched.draw(2) == 1;
        c
    } else {
        SchedCfg::lazy()
    };
    // Recording always runs to completion: the replayer (`assert_interpreted_results`) supports a
    // row *prefix* over a complete trace (cancellation on the replay side), not a trace whose
    // recording was cancelled -- it always asks the engine for one row more than expected.
    let stop_after: Option<usize> = None;
    let replay_prefix = if n > 0 && sched.draw(3) == 2 { Some(sched.draw(n as u32 + 1) as usize) } else { None };
    let (out, sim) = tapped_run(cx, cfg.clone(), sched, stop_after);
    cx.stats.execs += 1;
    let label = format!(
        "{}{}",
        if cfg.random { "read-ahead-below-tap" } else { "lazy" },
        if replay_prefix.is_some() { "+replay-prefix" } else { "" }
    );
    let (rows, trace, stopped) = match out {
        TapOutcome::Harness(m) => return Err(HarnessError(format!("C15 tapped run: {m}"))),
        TapOutcome::Cap => {
            cx.push("tapped-run-made-no-progress", format!("[{label}] direct run completes"), "cap");
            return Ok(());
        }
        TapOutcome::Panic(info) => {
            cx.violations.push(Violation {
                property: cx.prop.to_string(),
                class: "panic-only-when-tracing".into(),
                detail: format!(
                    "[{label}] direct run returns {n} rows; through AdapterTap the engine panicked at {}: {}",
                    info.location,
                    info.message.lines().next().unwrap_or("")
                ),
                fingerprint: info.fingerprint(),
            });
            return Ok(());
        }
        TapOutcome::Ok { rows, trace, stopped, events } => {
            cx.stats.events += events;
            cx.stats.fires.add(&sim.borrow().fires);
            (rows, trace, stopped)
        }
    };
    if replay_prefix.is_some() {
        cx.stats.probes.insert("c15_replay_cancelled_after_prefix".into());
    }
    if cfg.random {
        cx.stats.probes.insert("c15_read_ahead_below_tap".into());
    }
    // (1) tapped rows == direct rows (prefix when cancelled)
    let want = &direct.raw_rows[..rows.len().min(n)];
    let same = rows.len() <= n
        && (stopped || rows.len() == n)
        && rows.iter().zip(want.iter()).all(|(a, b)| {
            let (ma, mb) = (row_to_model(a), row_to_model(b));
            ma.len() == mb.len() && ma.iter().zip(mb.iter()).all(|((k1, v1), (k2, v2))| k1 == k2 && v1.same(v2))
        });
    if !same {
        cx.push(
            "rows-through-tracing-adapter-differ-from-direct-execution",
            format!("[{label}] direct {n} rows, tapped {} rows", rows.len()),
            "tap-rows",
        );
        return Ok(());
    }
    // (2) persist: RON round trip
    let text = match ron::to_string(&trace) {
        Ok(t) => t,
        Err(e) => {
            cx.push("trace-cannot-be-serialised", format!("[{label}] {e}"), "ser");
            return Ok(());
        }
    };
    let back: Trace<u32> = match ron::from_str(&text) {
        Ok(t) => t,
        Err(e) => {
            cx.push("serialised-trace-cannot-be-deserialised", format!("[{label}] {e}"), "de");
            return Ok(());
        }
    };
    if back != trace {
        cx.push("trace-changed-by-serialisation-round-trip", format!("[{label}] {} ops", trace.ops.len()), "roundtrip");
        return Ok(());
    }
    drop(trace);
    // (3) lose the source, replay from the deserialised trace alone
    let events_before = sim.borrow().events;
    take_panic();
    let res = catch_unwind(AssertUnwindSafe(|| {
        assert_interpreted_results(&back, &rows, true);
        if let Some(k) = replay_prefix {
            assert_interpreted_results(&back, &rows[..k.min(rows.len())], false);
        }
    }));
    let events_after = sim.borrow().events;
    if events_after != events_before {
        cx.push(
            "replay-consulted-the-original-data-source",
            format!("[{label}] {} adapter events during replay", events_after - events_before),
            "source",
        );
    }
    if res.is_err() {
        let info = take_panic().unwrap_or(crate::runner::PanicInfo { message: "?".into(), location: "?".into() });
        cx.violations.push(Violation {
            property: cx.prop.to_string(),
            class: "replay-of-recorded-trace-fails".into(),
            detail: format!(
                "[{label}] {} rows recorded, {} trace ops; replay failed at {}: {}",
                rows.len(),
                back.ops.len(),
                info.location,
                info.message.lines().next().unwrap_or("")
            ),
            fingerprint: format!("replay-of-recorded-trace-fails|{}", info.fingerprint()),
        });
    }
    Ok(())
}
