//! Second adapter flavour: the same simulated data source served through the repository's
//! `BasicAdapter` trait (blanket `impl Adapter for T: BasicAdapter` in basic_adapter.rs) and its
//! helper functions (`resolve_property_with`, `resolve_neighbors_with`,
//! `resolve_coercion_using_schema`, the default `resolve_typename`). The blanket impl and the
//! helpers are real code that sits between the engine and most user adapters; this flavour puts
//! them in the loop. It is order-preserving with a tape-chosen chunked read-ahead on its input
//! (legal per Appendix A), uses no hints, and checks the call arguments it receives (C21).

use std::cell::RefCell;
use std::collections::{BTreeMap, VecDeque};
use std::panic::{AssertUnwindSafe, catch_unwind};
use std::rc::Rc;
use std::sync::Arc;

use trustfall_core::interpreter::execution::interpret_ir;
use trustfall_core::interpreter::helpers::{
    resolve_coercion_using_schema, resolve_neighbors_with, resolve_property_with,
};
use trustfall_core::interpreter::{
    AsVertex, ContextIterator, ContextOutcomeIterator, Typename, VertexIterator,
    basic_adapter::BasicAdapter,
};
use trustfall_core::ir::{EdgeParameters, FieldValue};
use trustfall_core::schema::Schema;

use crate::adapter::{EventCapExceeded, HarnessBug, MonitorViolation};
use crate::model::Row;
use crate::runner::{Ending, PanicInfo, Workload, row_to_model, take_panic};
use crate::tape::Tape;
use crate::world::World;

#[derive(Clone, Debug)]
pub struct BV {
    pub id: u32,
    pub ty: &'static str,
}

impl Typename for BV {
    fn typename(&self) -> &'static str {
        self.ty
    }
}

thread_local! {
    // Typename wants &'static str; generated type names come from a small fixed family
    // (T0.., I0.., meta-schema names), so the interner is bounded.
    static NAMES: RefCell<BTreeMap<String, &'static str>> = const { RefCell::new(BTreeMap::new()) };
}

fn intern(s: &str) -> &'static str {
    NAMES.with(|n| {
        let mut n = n.borrow_mut();
        if let Some(x) = n.get(s) {
            return *x;
        }
        let leaked: &'static str = Box::leak(s.to_string().into_boxed_str());
        n.insert(s.to_string(), leaked);
        leaked
    })
}

pub struct BasicState {
    pub events: u64,
    pub event_cap: u64,
    pub violations: Vec<MonitorViolation>,
    pub sched: Tape,
    pub chunked: u64,
    pub typename_calls: u64,
}

pub struct BasicSim<'a> {
    pub world: Rc<World>,
    pub schema: &'a Schema,
    pub st: Rc<RefCell<BasicState>>,
    /// 0: strictly lazy; otherwise read ahead up to 1 + draw(chunk) input contexts per refill
    pub chunk: u32,
}

fn tick(st: &Rc<RefCell<BasicState>>) {
    let mut s = st.borrow_mut();
    s.events += 1;
    if s.events > s.event_cap {
        drop(s);
        std::panic::panic_any(EventCapExceeded);
    }
}

fn violation(st: &Rc<RefCell<BasicState>>, class: &str, detail: String) {
    let mut s = st.borrow_mut();
    if s.violations.len() < 16 {
        s.violations.push(MonitorViolation { property: "C21", class: class.to_string(), detail });
    }
}

/// Order-preserving chunked read-ahead over any iterator; never polls again after `None`.
struct Chunked<'a, T> {
    inner: Option<Box<dyn Iterator<Item = T> + 'a>>,
    buf: VecDeque<T>,
    st: Rc<RefCell<BasicState>>,
    chunk: u32,
}

impl<'a, T> Iterator for Chunked<'a, T> {
    type Item = T;
    fn next(&mut self) -> Option<T> {
        if self.buf.is_empty() {
            if let Some(inner) = self.inner.as_mut() {
                let n = if self.chunk == 0 { 1 } else { 1 + self.st.borrow_mut().sched.draw(self.chunk) };
                let mut got = 0;
                while got < n {
                    match inner.next() {
                        Some(x) => {
                            self.buf.push_back(x);
                            got += 1;
                        }
                        None => {
                            self.inner = None;
                            break;
                        }
                    }
                }
                if got >= 2 {
                    self.st.borrow_mut().chunked += 1;
                }
            }
        }
        self.buf.pop_front()
    }
}

impl<'a> BasicSim<'a> {
    fn mk(&self, id: u32) -> BV {
        let ty = intern(&self.world.schema.types[self.world.concrete_type(id)].name);
        BV { id, ty }
    }

    fn chunked<T: 'a>(&self, it: Box<dyn Iterator<Item = T> + 'a>) -> Box<dyn Iterator<Item = T> + 'a> {
        Box::new(Chunked { inner: Some(it), buf: VecDeque::new(), st: self.st.clone(), chunk: self.chunk })
    }

    fn check_type(&self, what: &str, type_name: &str) -> Option<usize> {
        let idx = self.world.schema.type_index(type_name);
        if idx.is_none() {
            violation(&self.st, "type-not-in-schema", format!("basic adapter {what}: type `{type_name}`"));
        }
        idx
    }
}

fn params_map(p: &EdgeParameters) -> BTreeMap<String, FieldValue> {
    p.iter().map(|(k, v)| (k.to_string(), v.clone())).collect()
}

impl<'a> BasicAdapter<'a> for BasicSim<'a> {
    type Vertex = BV;

    fn resolve_starting_vertices(
        &self,
        edge_name: &str,
        parameters: &EdgeParameters,
    ) -> VertexIterator<'a, BV> {
        tick(&self.st);
        let params = params_map(parameters);
        match self.world.schema.entry_point(edge_name) {
            None => violation(&self.st, "entry-point-not-in-schema", format!("basic adapter: `{edge_name}`")),
            Some(ep) => {
                for d in &ep.params {
                    match params.get(&d.name) {
                        None => violation(
                            &self.st,
                            "declared-edge-parameter-missing",
                            format!("basic adapter: `{edge_name}` without `{}`", d.name),
                        ),
                        Some(v) => {
                            if !crate::adapter::ty_admits(&d.ty, v) {
                                violation(
                                    &self.st,
                                    "edge-parameter-value-not-of-declared-type",
                                    format!("basic adapter: `{edge_name}({})`", d.name),
                                );
                            }
                        }
                    }
                }
                for k in params.keys() {
                    if !ep.params.iter().any(|d| &d.name == k) {
                        violation(&self.st, "undeclared-edge-parameter", format!("basic adapter: `{edge_name}` with `{k}`"));
                    }
                }
            }
        }
        let vs: Vec<BV> = self.world.starting(edge_name, &params).into_iter().map(|v| self.mk(v)).collect();
        let st = self.st.clone();
        Box::new(vs.into_iter().inspect(move |_| tick(&st)))
    }

    fn resolve_property<V: AsVertex<BV> + 'a>(
        &self,
        contexts: ContextIterator<'a, V>,
        type_name: &str,
        property_name: &str,
    ) -> ContextOutcomeIterator<'a, V, FieldValue> {
        tick(&self.st);
        // documented: `__typename` is routed to resolve_typename() and never arrives here
        if property_name == "__typename" {
            violation(
                &self.st,
                "basic-adapter-asked-to-resolve-__typename-as-a-property",
                format!("BasicAdapter::resolve_property(`{type_name}`, `__typename`)"),
            );
        }
        let tidx = self.check_type("resolve_property", type_name);
        if let Some(t) = tidx {
            if property_name != "__typename" && self.world.schema.prop(t, property_name).is_none() {
                violation(
                    &self.st,
                    "property-not-defined-on-type",
                    format!("basic adapter: `{type_name}.{property_name}`"),
                );
            }
        }
        let world = self.world.clone();
        let st = self.st.clone();
        let st2 = self.st.clone();
        let pname = property_name.to_string();
        let tname = type_name.to_string();
        let input = self.chunked(contexts);
        resolve_property_with(input, move |v: &BV| {
            tick(&st);
            if let Some(t) = tidx {
                if !world.is_instance(v.id, t) {
                    violation(
                        &st2,
                        "active-vertex-not-instance-of-named-type",
                        format!("basic adapter resolve_property: v{}:{} passed as `{tname}`", v.id, v.ty),
                    );
                }
            }
            if pname == "__typename" { FieldValue::from(v.ty) } else { world.prop_fv(v.id, &pname) }
        })
    }

    fn resolve_neighbors<V: AsVertex<BV> + 'a>(
        &self,
        contexts: ContextIterator<'a, V>,
        type_name: &str,
        edge_name: &str,
        parameters: &EdgeParameters,
    ) -> ContextOutcomeIterator<'a, V, VertexIterator<'a, BV>> {
        tick(&self.st);
        let params = params_map(parameters);
        let tidx = self.check_type("resolve_neighbors", type_name);
        if let Some(t) = tidx {
            match self.world.schema.edge(t, edge_name) {
                None => violation(&self.st, "edge-not-defined-on-type", format!("basic adapter: `{type_name}.{edge_name}`")),
                Some(ed) => {
                    for d in &ed.params {
                        match params.get(&d.name) {
                            None => violation(
                                &self.st,
                                "declared-edge-parameter-missing",
                                format!("basic adapter: `{edge_name}` without `{}`", d.name),
                            ),
                            Some(v) => {
                                if !crate::adapter::ty_admits(&d.ty, v) {
                                    violation(
                                        &self.st,
                                        "edge-parameter-value-not-of-declared-type",
                                        format!("basic adapter: `{edge_name}({})`", d.name),
                                    );
                                }
                            }
                        }
                    }
                    for k in params.keys() {
                        if !ed.params.iter().any(|d| &d.name == k) {
                            violation(&self.st, "undeclared-edge-parameter", format!("basic adapter: `{edge_name}` with `{k}`"));
                        }
                    }
                }
            }
        }
        let world = self.world.clone();
        let st = self.st.clone();
        let st2 = self.st.clone();
        let ename = edge_name.to_string();
        let tname = type_name.to_string();
        let input = self.chunked(contexts);
        resolve_neighbors_with(input, move |v: &BV| {
            tick(&st);
            if let Some(t) = tidx {
                if !world.is_instance(v.id, t) {
                    violation(
                        &st2,
                        "active-vertex-not-instance-of-named-type",
                        format!("basic adapter resolve_neighbors: v{}:{} passed as `{tname}`", v.id, v.ty),
                    );
                }
            }
            let ns: Vec<BV> = world
                .neighbors(v.id, &ename, &params)
                .into_iter()
                .map(|u| BV { id: u, ty: intern(&world.schema.types[world.concrete_type(u)].name) })
                .collect();
            let st3 = st.clone();
            Box::new(ns.into_iter().inspect(move |_| tick(&st3)))
        })
    }

    fn resolve_coercion<V: AsVertex<BV> + 'a>(
        &self,
        contexts: ContextIterator<'a, V>,
        type_name: &str,
        coerce_to_type: &str,
    ) -> ContextOutcomeIterator<'a, V, bool> {
        tick(&self.st);
        self.check_type("resolve_coercion", type_name);
        self.check_type("resolve_coercion", coerce_to_type);
        let input = self.chunked(contexts);
        resolve_coercion_using_schema(input, self.schema, coerce_to_type)
    }
}

pub struct BasicOutcome {
    pub ending: Ending,
    pub rows: Vec<Row>,
    pub raw_rows: Vec<BTreeMap<Arc<str>, FieldValue>>,
    pub violations: Vec<MonitorViolation>,
    pub events: u64,
    pub chunked: u64,
    pub sched: Tape,
}

/// Run the real engine over the BasicAdapter flavour. `chunk` = 0 is strictly lazy.
pub fn exec_basic(w: &Workload, chunk: u32, sched: Tape, event_cap: u64) -> BasicOutcome {
    let st = Rc::new(RefCell::new(BasicState {
        events: 0,
        event_cap,
        violations: vec![],
        sched,
        chunked: 0,
        typename_calls: 0,
    }));
    let mut raw_rows = vec![];
    take_panic();
    let result = catch_unwind(AssertUnwindSafe(|| {
        let adapter = Arc::new(BasicSim { world: w.world.clone(), schema: &w.schema, st: st.clone(), chunk });
        let it = interpret_ir(adapter, w.compiled.clone(), w.args_arc.clone());
        let it = match it {
            Ok(it) => it,
            Err(e) => return Err(format!("{e}")),
        };
        for row in it {
            raw_rows.push(row);
            if raw_rows.len() > 6000 {
                std::panic::panic_any(EventCapExceeded);
            }
        }
        Ok(())
    }));
    let ending = match result {
        Ok(Ok(())) => Ending::Completed,
        Ok(Err(e)) => Ending::ArgsRejected(e),
        Err(payload) => {
            if payload.downcast_ref::<EventCapExceeded>().is_some() {
                Ending::EventCap
            } else if let Some(h) = payload.downcast_ref::<HarnessBug>() {
                Ending::HarnessBug(h.0.clone())
            } else {
                let info = take_panic().unwrap_or(PanicInfo { message: "<no message>".into(), location: "<unknown>".into() });
                if info.location.starts_with("src/") {
                    Ending::HarnessBug(format!("{} at {}", info.message, info.location))
                } else {
                    Ending::Panic(info)
                }
            }
        }
    };
    let rows = raw_rows.iter().map(row_to_model).collect();
    let (violations, events, chunked, sched) = match st.try_borrow_mut() {
        Ok(mut s) => (std::mem::take(&mut s.violations), s.events, s.chunked, s.sched.clone()),
        Err(_) => (vec![], 0, 0, Tape::replaying(vec![])),
    };
    BasicOutcome { ending, rows, raw_rows, violations, events, chunked, sched }
}
