//! C20: schema introspection through the real SchemaAdapter.

use crate::checks::{CaseResult, HarnessError};
use crate::tape::Tapes;

pub fn case_c20(_tapes: &mut Tapes) -> Result<CaseResult, HarnessError> {
    Err(HarnessError("C20 not built yet".into()))
}
