//! C20: schema introspection through the real `SchemaAdapter`.
//!
//! (a) contract half: the real `check_adapter_invariants` on the real adapter, and the engine run
//!     over it behind an order-preserving wrapper that reads ahead in tape-chosen chunks and
//!     injects contexts without an active vertex into every resolver's input (the adapter must
//!     answer null / no neighbors for them, in place);
//! (b) content half: generated introspection queries over the meta-schema; rows must equal the
//!     reference model evaluated on the harness's own view of its schema AST.

use std::cell::{Cell, RefCell};
use std::collections::{BTreeMap, VecDeque};
use std::panic::{AssertUnwindSafe, catch_unwind};
use std::rc::Rc;
use std::sync::Arc;

use trustfall_core::interpreter::execution::interpret_ir;
use trustfall_core::interpreter::helpers::check_adapter_invariants;
use trustfall_core::interpreter::{
    Adapter, AsVertex, ContextIterator, ContextOutcomeIterator, DataContext, ResolveEdgeInfo,
    ResolveInfo, VertexIterator,
};
use trustfall_core::ir::{EdgeParameters, FieldValue, TransparentValue};
use trustfall_core::schema::{Schema, SchemaAdapter};

use crate::checks::{CaseResult, CaseStats, HarnessError, Violation};
use crate::model::{Model, Row, canon_fold_lists, rows_differ};
use crate::qast::{QueryCfg, gen_args, gen_query};
use crate::runner::{BuildError, build_world, finish_workload, row_to_model, take_panic};
use crate::tape::{Tape, Tapes, fnv1a, mix};
use crate::val::{Base, Ty, mk_str};
use crate::world::{Card, EdgeDef, EntryPoint, PropDef, SchemaAst, TypeDef, VertexData, World};

type SV<'a> = <SchemaAdapter<'a> as Adapter<'a>>::Vertex;

const VT: usize = 0;
const PROP: usize = 1;
const EDGE: usize = 2;
const PARAM: usize = 3;
const SCHEMA: usize = 4;

fn p(name: &str, ty: &str) -> PropDef {
    PropDef { name: name.into(), ty: Ty::parse(ty).unwrap() }
}

fn e(name: &str, target: usize, card: Card, origin: usize) -> EdgeDef {
    EdgeDef { name: name.into(), target, card, params: vec![], origin }
}

/// The harness's transcription of trustfall_core/src/schema/adapter/schema.graphql.
pub fn meta_schema_ast() -> SchemaAst {
    let types = vec![
        TypeDef {
            name: "VertexType".into(),
            is_interface: false,
            implements: vec![],
            props: vec![p("name", "String!"), p("docs", "String"), p("is_interface", "Boolean!")],
            edges: vec![
                e("implements", VT, Card::Many, VT),
                e("implementer", VT, Card::Many, VT),
                e("property", PROP, Card::Many, VT),
                e("edge", EDGE, Card::Many, VT),
            ],
        },
        TypeDef {
            name: "Property".into(),
            is_interface: false,
            implements: vec![],
            props: vec![p("name", "String!"), p("docs", "String"), p("type", "String!")],
            edges: vec![],
        },
        TypeDef {
            name: "Edge".into(),
            is_interface: false,
            implements: vec![],
            props: vec![
                p("name", "String!"),
                p("docs", "String"),
                p("to_many", "Boolean!"),
                p("at_least_one", "Boolean!"),
            ],
            edges: vec![e("target", VT, Card::One, EDGE), e("parameter", PARAM, Card::Many, EDGE)],
        },
        TypeDef {
            name: "EdgeParameter".into(),
            is_interface: false,
            implements: vec![],
            props: vec![p("name", "String!"), p("docs", "String"), p("type", "String!"), p("default", "String")],
            edges: vec![],
        },
        TypeDef {
            name: "Schema".into(),
            is_interface: false,
            implements: vec![],
            props: vec![],
            edges: vec![
                e("vertex_type", VT, Card::ManyNonNull, SCHEMA),
                e("entrypoint", EDGE, Card::ManyNonNull, SCHEMA),
            ],
        },
    ];
    let entry = vec![
        EntryPoint { name: "VertexType".into(), target: VT, card: Card::ManyNonNull, params: vec![], vertices: vec![] },
        EntryPoint { name: "Entrypoint".into(), target: EDGE, card: Card::ManyNonNull, params: vec![], vertices: vec![] },
        EntryPoint { name: "Schema".into(), target: SCHEMA, card: Card::One, params: vec![], vertices: vec![] },
    ];
    SchemaAst { root_name: "RootSchemaQuery".into(), types, entry }
}

fn default_json(def: &Option<FieldValue>, nullable: bool) -> FieldValue {
    match def {
        Some(v) => mk_str(&serde_json::to_string(&TransparentValue::from(v.clone())).unwrap()),
        None if nullable => mk_str("null"),
        None => FieldValue::Null,
    }
}

/// The dataset view of a subject schema: what introspection should report, stated from the
/// harness's own AST.
pub fn meta_world(s: &SchemaAst) -> World {
    let mut vs: Vec<VertexData> = vec![];
    let mut push = |ty: usize, props: Vec<(&str, FieldValue)>| -> u32 {
        vs.push(VertexData {
            ty,
            props: props.into_iter().map(|(k, v)| (k.to_string(), v)).collect(),
            adj: BTreeMap::new(),
        });
        (vs.len() - 1) as u32
    };
    let vt_ids: Vec<u32> = s
        .types
        .iter()
        .map(|t| {
            push(
                VT,
                vec![
                    ("name", mk_str(&t.name)),
                    ("docs", FieldValue::Null),
                    ("is_interface", FieldValue::Boolean(t.is_interface)),
                ],
            )
        })
        .collect();
    let mut mk_edge = |name: &str, card: Card, target: usize, params: &[crate::world::ParamDef], vs_push: &mut dyn FnMut(usize, Vec<(&str, FieldValue)>) -> u32| -> (u32, Vec<u32>, usize) {
        let id = vs_push(
            EDGE,
            vec![
                ("name", mk_str(name)),
                ("docs", FieldValue::Null),
                ("to_many", FieldValue::Boolean(card.to_many())),
                ("at_least_one", FieldValue::Boolean(matches!(card, Card::One | Card::ManyNonNull))),
            ],
        );
        let mut pids = vec![];
        for pd in params {
            pids.push(vs_push(
                PARAM,
                vec![
                    ("name", mk_str(&pd.name)),
                    ("docs", FieldValue::Null),
                    ("type", mk_str(&pd.ty.render())),
                    ("default", default_json(&pd.default, pd.ty.nullable())),
                ],
            ));
        }
        (id, pids, target)
    };
    let mut edge_records: Vec<(u32, Vec<u32>, usize)> = vec![];
    let mut per_type: Vec<(Vec<u32>, Vec<u32>)> = vec![];
    for t in &s.types {
        let mut prop_ids = vec![];
        for pd in &t.props {
            prop_ids.push(push(
                PROP,
                vec![("name", mk_str(&pd.name)), ("docs", FieldValue::Null), ("type", mk_str(&pd.ty.render()))],
            ));
        }
        let mut edge_ids = vec![];
        for ed in &t.edges {
            let rec = mk_edge(&ed.name, ed.card, ed.target, &ed.params, &mut push);
            edge_ids.push(rec.0);
            edge_records.push(rec);
        }
        per_type.push((prop_ids, edge_ids));
    }
    let mut entry_ids = vec![];
    for ep in &s.entry {
        let rec = mk_edge(&ep.name, ep.card, ep.target, &ep.params, &mut push);
        entry_ids.push(rec.0);
        edge_records.push(rec);
    }
    let schema_id = push(SCHEMA, vec![]);
    drop(push);
    for (k, t) in s.types.iter().enumerate() {
        let v = &mut vs[vt_ids[k] as usize];
        v.adj.insert("implements".into(), t.implements.iter().map(|i| vt_ids[*i]).collect());
        let mut subs: Vec<usize> = (0..s.types.len()).filter(|x| *x != k && s.types[*x].implements.contains(&k)).collect();
        subs.sort_by(|a, b| s.types[*a].name.cmp(&s.types[*b].name));
        v.adj.insert("implementer".into(), subs.iter().map(|i| vt_ids[*i]).collect());
        v.adj.insert("property".into(), per_type[k].0.clone());
        v.adj.insert("edge".into(), per_type[k].1.clone());
    }
    for (id, pids, target) in edge_records {
        let v = &mut vs[id as usize];
        v.adj.insert("target".into(), vec![vt_ids[target]]);
        v.adj.insert("parameter".into(), pids);
    }
    vs[schema_id as usize].adj.insert("vertex_type".into(), vt_ids.clone());
    vs[schema_id as usize].adj.insert("entrypoint".into(), entry_ids.clone());
    let mut schema = meta_schema_ast();
    schema.entry[0].vertices = vt_ids;
    schema.entry[1].vertices = entry_ids;
    schema.entry[2].vertices = vec![schema_id];
    World { schema, vertices: vs }
}

// ---------------------------------------------------------------------------------------------
// The perturbing wrapper around the real SchemaAdapter.

struct Shared {
    /// Perturbation decisions are a pure function of (seed, call site, index within the call's
    /// stream), not of the order in which streams are pulled: SchemaAdapter's VertexType order is
    /// hash order, and the simulation must stay a function of its tapes alone.
    seed: u64,
    random: bool,
    problems: RefCell<Vec<(String, String)>>,
    injected: Cell<u64>,
    read_ahead: Cell<u64>,
}

struct PerturbAdapter<'a> {
    inner: SchemaAdapter<'a>,
    shared: Rc<Shared>,
}

// Safety of lifetimes: all iterators are boxed with the adapter's `'a`; the wrappers hold only
// `Rc`s and boxed closures without borrows.
fn wrap_in<'a, V: AsVertex<SV<'a>> + 'a>(
    contexts: ContextIterator<'a, V>,
    shared: &Rc<Shared>,
    site: &str,
) -> (ContextIterator<'a, V>, Rc<RefCell<VecDeque<bool>>>) {
    let flags = Rc::new(RefCell::new(VecDeque::new()));
    // The boxed iterator types below carry `'a`; transmuting lifetimes is not needed because the
    // wrapper structs are generic over the item type only and box their inner iterator as
    // `dyn Iterator + 'a` through the helper below.
    let it = lifetimes::input(contexts, flags.clone(), shared.clone(), fnv1a(site.as_bytes()));
    (it, flags)
}

mod lifetimes {
    //! Variants of the wrappers whose boxed inner iterators carry the adapter lifetime.
    use super::*;

    pub struct In<'a, V> {
        pub site: u64,
        pub idx: u64,
        pub inner: Option<ContextIterator<'a, V>>,
        pub buf: VecDeque<DataContext<V>>,
        pub flags: Rc<RefCell<VecDeque<bool>>>,
        pub shared: Rc<Shared>,
    }

    impl<'a, V: Clone + std::fmt::Debug + 'a> Iterator for In<'a, V> {
        type Item = DataContext<V>;
        fn next(&mut self) -> Option<DataContext<V>> {
            if self.buf.is_empty() {
                if let Some(inner) = self.inner.as_mut() {
                    let random = self.shared.random;
                    let (seed, site) = (self.shared.seed, self.site);
                    let mut decide = |idx: &mut u64, n: u64| -> u64 {
                        *idx += 1;
                        mix(mix(seed, site), *idx) % n
                    };
                    let n = if random { 1 + decide(&mut self.idx, 4) } else { 1 };
                    let mut got = 0;
                    for _ in 0..n {
                        match inner.next() {
                            Some(c) => {
                                if random && decide(&mut self.idx, 4) == 3 {
                                    self.flags.borrow_mut().push_back(true);
                                    self.buf.push_back(DataContext::new(None));
                                    self.shared.injected.set(self.shared.injected.get() + 1);
                                }
                                self.flags.borrow_mut().push_back(false);
                                self.buf.push_back(c);
                                got += 1;
                            }
                            None => {
                                self.inner = None;
                                if random && decide(&mut self.idx, 4) == 3 {
                                    self.flags.borrow_mut().push_back(true);
                                    self.buf.push_back(DataContext::new(None));
                                    self.shared.injected.set(self.shared.injected.get() + 1);
                                }
                                break;
                            }
                        }
                    }
                    if got >= 2 {
                        self.shared.read_ahead.set(self.shared.read_ahead.get() + 1);
                    }
                }
            }
            self.buf.pop_front()
        }
    }

    pub fn input<'a, V: Clone + std::fmt::Debug + 'a>(
        contexts: ContextIterator<'a, V>,
        flags: Rc<RefCell<VecDeque<bool>>>,
        shared: Rc<Shared>,
        site: u64,
    ) -> ContextIterator<'a, V> {
        Box::new(In { site, idx: 0, inner: Some(contexts), buf: VecDeque::new(), flags, shared })
    }

    pub struct Out<'a, V, O> {
        pub inner: ContextOutcomeIterator<'a, V, O>,
        pub flags: Rc<RefCell<VecDeque<bool>>>,
        pub shared: Rc<Shared>,
        pub site: String,
        pub check_missing: Box<dyn FnMut(O) -> Option<&'static str> + 'a>,
    }

    impl<'a, V: AsVertex<SV<'a>> + 'a, O> Iterator for Out<'a, V, O> {
        type Item = (DataContext<V>, O);
        fn next(&mut self) -> Option<(DataContext<V>, O)> {
            loop {
                let (c, o) = self.inner.next()?;
                let flag = self.flags.borrow_mut().pop_front();
                match flag {
                    None => {
                        self.shared.problems.borrow_mut().push((
                            "schema-adapter-produced-more-outputs-than-inputs".into(),
                            self.site.clone(),
                        ));
                        return Some((c, o));
                    }
                    Some(false) => return Some((c, o)),
                    Some(true) => {
                        if c.active_vertex::<SV<'a>>().is_some() {
                            self.shared.problems.borrow_mut().push((
                                "schema-adapter-reordered-contexts".into(),
                                self.site.clone(),
                            ));
                        }
                        if let Some(problem) = (self.check_missing)(o) {
                            self.shared.problems.borrow_mut().push((problem.into(), self.site.clone()));
                        }
                    }
                }
            }
        }
    }
}

impl<'a> Adapter<'a> for PerturbAdapter<'a> {
    type Vertex = SV<'a>;

    fn resolve_starting_vertices(
        &self,
        edge_name: &Arc<str>,
        parameters: &EdgeParameters,
        resolve_info: &ResolveInfo,
    ) -> VertexIterator<'a, Self::Vertex> {
        self.inner.resolve_starting_vertices(edge_name, parameters, resolve_info)
    }

    fn resolve_property<V: AsVertex<Self::Vertex> + 'a>(
        &self,
        contexts: ContextIterator<'a, V>,
        type_name: &Arc<str>,
        property_name: &Arc<str>,
        resolve_info: &ResolveInfo,
    ) -> ContextOutcomeIterator<'a, V, FieldValue> {
        let vid = format!("{:?}", trustfall_core::interpreter::VertexInfo::vid(resolve_info));
        let (input, flags) = wrap_in(contexts, &self.shared, &format!("p|{type_name}|{property_name}|{vid}"));
        let inner = self.inner.resolve_property(input, type_name, property_name, resolve_info);
        Box::new(lifetimes::Out {
            inner,
            flags,
            shared: self.shared.clone(),
            site: format!("resolve_property({type_name}.{property_name})"),
            check_missing: Box::new(|v: FieldValue| {
                if matches!(v, FieldValue::Null) { None } else { Some("schema-adapter-non-null-property-for-missing-vertex") }
            }),
        })
    }

    fn resolve_neighbors<V: AsVertex<Self::Vertex> + 'a>(
        &self,
        contexts: ContextIterator<'a, V>,
        type_name: &Arc<str>,
        edge_name: &Arc<str>,
        parameters: &EdgeParameters,
        resolve_info: &ResolveEdgeInfo,
    ) -> ContextOutcomeIterator<'a, V, VertexIterator<'a, Self::Vertex>> {
        let eid = format!("{:?}", resolve_info.eid());
        let (input, flags) = wrap_in(contexts, &self.shared, &format!("n|{type_name}|{edge_name}|{eid}"));
        let inner = self.inner.resolve_neighbors(input, type_name, edge_name, parameters, resolve_info);
        Box::new(lifetimes::Out {
            inner,
            flags,
            shared: self.shared.clone(),
            site: format!("resolve_neighbors({type_name}.{edge_name})"),
            check_missing: Box::new(|mut it: VertexIterator<'a, SV<'a>>| {
                if it.next().is_none() { None } else { Some("schema-adapter-neighbors-for-missing-vertex") }
            }),
        })
    }

    fn resolve_coercion<V: AsVertex<Self::Vertex> + 'a>(
        &self,
        contexts: ContextIterator<'a, V>,
        type_name: &Arc<str>,
        coerce_to_type: &Arc<str>,
        resolve_info: &ResolveInfo,
    ) -> ContextOutcomeIterator<'a, V, bool> {
        self.inner.resolve_coercion(contexts, type_name, coerce_to_type, resolve_info)
    }
}

fn run_engine(
    subject: &Schema,
    compiled: Arc<trustfall_core::ir::IndexedQuery>,
    args: Arc<BTreeMap<Arc<str>, FieldValue>>,
    shared: Rc<Shared>,
) -> Result<Vec<BTreeMap<Arc<str>, FieldValue>>, crate::runner::PanicInfo> {
    take_panic();
    let res = catch_unwind(AssertUnwindSafe(|| {
        #[allow(clippy::arc_with_non_send_sync)]
        let adapter = Arc::new(PerturbAdapter { inner: SchemaAdapter::new(subject), shared });
        let it = interpret_ir(adapter, compiled, args).expect("arguments rejected");
        let mut rows = vec![];
        for r in it {
            rows.push(r);
            if rows.len() > 20_000 {
                break;
            }
        }
        rows
    }));
    res.map_err(|_| take_panic().unwrap_or(crate::runner::PanicInfo { message: "?".into(), location: "?".into() }))
}

pub fn case_c20(tapes: &mut Tapes) -> Result<CaseResult, HarnessError> {
    let (subject_world, subject_text) = build_world(tapes);
    let subject = Schema::parse(&subject_text)
        .map_err(|e| HarnessError(format!("generated schema rejected: {e}\n{subject_text}")))?;
    let meta_text = SchemaAdapter::schema_text().to_string();
    let meta = Schema::parse(&meta_text).map_err(|e| HarnessError(format!("meta schema rejected: {e}")))?;
    let mut stats = CaseStats::default();
    let mut violations: Vec<Violation> = vec![];

    // (a1) the real invariant checker on the real adapter
    take_panic();
    if catch_unwind(AssertUnwindSafe(|| check_adapter_invariants(&meta, SchemaAdapter::new(&subject)))).is_err() {
        let info = take_panic().unwrap_or(crate::runner::PanicInfo { message: "?".into(), location: "?".into() });
        violations.push(Violation {
            property: "C20".into(),
            class: "schema-adapter-fails-the-adapter-invariant-checker".into(),
            detail: format!("panicked at {}: {}", info.location, info.message.lines().next().unwrap_or("")),
            fingerprint: format!("invariants|{}", info.fingerprint()),
        });
    }
    stats.execs += 1;

    // (b) + (a2): generated introspection queries
    let mworld = Rc::new(meta_world(&subject_world.schema));
    let n_queries = 3;
    let mut digest = fnv1a(subject_text.as_bytes());
    for qi in 0..n_queries {
        let mut cfg = QueryCfg::draw(&mut tapes.query, false);
        cfg.f_coercion = false;
        let q = gen_query(&mworld, &mut tapes.query, cfg);
        let args = gen_args(&q, &mworld, &mut tapes.args);
        let w = match finish_workload(mworld.clone(), meta_text.clone(), meta.clone(), q, args) {
            Ok(w) => w,
            Err(BuildError::Discard(_, _)) => {
                stats.probes.insert("introspection_query_rejected".into());
                continue;
            }
            Err(BuildError::FrontendPanic(..)) => continue,
            Err(BuildError::SchemaRejected(_, e)) => return Err(HarnessError(e)),
        };
        // argument validation happens inside interpret_ir; make sure it accepts first
        if trustfall_core::interpreter::InterpretedQuery::from_query_and_arguments(w.compiled.clone(), w.args_arc.clone()).is_err() {
            continue;
        }
        let model = Model::new(&mworld, &w.q, &w.args).run(&w.q);
        if model.overflow {
            continue;
        }
        digest = mix(digest, fnv1a(w.query_text.as_bytes()));
        for random in [false, true] {
            let seed = if random { ((tapes.sched.draw(1 << 16) as u64) << 16) | tapes.sched.draw(1 << 16) as u64 } else { 0 };
            let shared = Rc::new(Shared {
                seed,
                random,
                problems: RefCell::new(vec![]),
                injected: Cell::new(0),
                read_ahead: Cell::new(0),
            });
            let res = run_engine(&subject, w.compiled.clone(), w.args_arc.clone(), shared.clone());
            stats.execs += 1;
            stats.fires.f2_chunked_refill += shared.read_ahead.get();
            stats.events += shared.injected.get();
            if shared.injected.get() > 0 {
                stats.probes.insert("contexts_without_vertex_injected".into());
            }
            let label = if random { "perturbed-inputs" } else { "plain" };
            for (problem, site) in shared.problems.borrow().iter() {
                violations.push(Violation {
                    property: "C20".into(),
                    class: problem.clone(),
                    detail: format!("[{label}] at {site}\n{}", w.query_text),
                    fingerprint: format!("{problem}|{site}"),
                });
            }
            match res {
                Err(info) => {
                    if info.location.starts_with("src/") {
                        return Err(HarnessError(format!("{} at {}", info.message, info.location)));
                    }
                    violations.push(Violation {
                        property: "C20".into(),
                        class: "panic-during-introspection-query".into(),
                        detail: format!(
                            "[{label}] panicked at {}: {}\n{}",
                            info.location,
                            info.message.lines().next().unwrap_or(""),
                            w.query_text
                        ),
                        fingerprint: format!("panic|{}", info.fingerprint()),
                    });
                }
                Ok(raw) => {
                    if model.undefined.is_some() {
                        continue;
                    }
                    let mut rows: Vec<Row> = raw.iter().map(row_to_model).collect();
                    let mut mrows = model.rows.clone();
                    for r in rows.iter_mut() {
                        canon_fold_lists(&w.q.root, "", r);
                    }
                    for r in mrows.iter_mut() {
                        canon_fold_lists(&w.q.root, "", r);
                    }
                    if !mrows.is_empty() {
                        stats.rows += mrows.len();
                    }
                    if let Some(d) = rows_differ(&rows, &mrows, model.nonforest) {
                        violations.push(Violation {
                            property: "C20".into(),
                            class: "introspection-rows-differ-from-the-schema".into(),
                            detail: format!("[{label}] SchemaAdapter vs the harness's view of the schema: {d}\n{}args: {:?}", w.query_text, w.args),
                            fingerprint: format!("rows|features={}", w.q.features().into_iter().collect::<Vec<_>>().join(",")),
                        });
                    }
                }
            }
        }
        let _ = qi;
    }
    let mut seen = std::collections::BTreeSet::new();
    violations.retain(|v| seen.insert(format!("{}|{}", v.class, v.fingerprint)));
    stats.nontrivial = stats.rows > 0;
    stats.case_digest = digest;
    stats.sample = Some(serde_json::json!({
        "subject_schema_types": subject_world.schema.types.iter().map(|t| t.name.clone()).collect::<Vec<_>>(),
        "meta_vertices": mworld.vertices.len(),
        "engine_executions": stats.execs,
        "model_rows_compared": stats.rows,
        "injected_contexts_without_vertex": stats.events,
    }));
    Ok(CaseResult { violations, stats })
}


#[allow(dead_code)]
pub fn debug_show(tapes: &mut Tapes) {
    let (subject_world, _) = build_world(tapes);
    let mworld = Rc::new(meta_world(&subject_world.schema));
    for _ in 0..3 {
        let mut cfg = QueryCfg::draw(&mut tapes.query, false);
        cfg.f_coercion = false;
        let q = gen_query(&mworld, &mut tapes.query, cfg);
        let args = gen_args(&q, &mworld, &mut tapes.args);
        println!("{}\n{:?}", q.render(&mworld), args);
    }
}
