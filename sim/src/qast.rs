//! The harness's own query AST, its renderer to Trustfall query text, and its generator.
//! Validity is by construction (Appendix C of DESIGN.md); the text still goes through the real
//! `frontend::parse`, and a rejection discards the run.

use std::collections::{BTreeMap, BTreeSet};

use trustfall_core::ir::FieldValue;

use crate::tape::Tape;
use crate::val::{Base, Op, Ty, fv_graphql_literal, mk_str};
use crate::world::{World, gen_fv, int_fv};

#[derive(Clone, Debug, PartialEq)]
pub enum Operand {
    None,
    Var(String),
    Tag(String),
}

#[derive(Clone, Debug, PartialEq)]
pub struct QFilter {
    pub op: Op,
    pub operand: Operand,
}

#[derive(Clone, Debug)]
pub struct QProp {
    pub name: String,
    pub alias: Option<String>,
    pub ty: Ty,
    pub outputs: Vec<Option<String>>,
    pub tags: Vec<Option<String>>,
    pub filters: Vec<QFilter>,
}

#[derive(Clone, Debug, Default)]
pub struct FoldSpec {
    pub transform_count: bool,
    pub count_outputs: Vec<Option<String>>,
    pub count_tags: Vec<String>,
    pub count_filters: Vec<QFilter>,
}

#[derive(Clone, Debug)]
pub enum EdgeKind {
    Plain,
    Optional,
    Recurse(u32),
    Fold(FoldSpec),
}

#[derive(Clone, Debug)]
pub struct QEdge {
    pub name: String,
    pub alias: Option<String>,
    pub params: BTreeMap<String, FieldValue>,
    pub kind: EdgeKind,
    pub node: QNode,
}

#[derive(Clone, Debug)]
pub enum QItem {
    Prop(QProp),
    Edge(QEdge),
}

#[derive(Clone, Debug)]
pub struct QNode {
    /// Type of the scope before any coercion (the edge's declared target).
    pub static_ty: usize,
    pub coerce_to: Option<usize>,
    pub items: Vec<QItem>,
    /// DFS pre-order number, starting at 1; equals the engine's Vid for an accepted query.
    pub vid: usize,
}

impl QNode {
    pub fn eff_ty(&self) -> usize {
        self.coerce_to.unwrap_or(self.static_ty)
    }
}

#[derive(Clone, Debug)]
pub struct VarInfo {
    pub name: String,
    pub ty: Ty,
    pub regex: bool,
    pub count: bool,
}

#[derive(Clone, Debug)]
pub struct QueryAst {
    pub entry: String,
    pub entry_params: BTreeMap<String, FieldValue>,
    pub root: QNode,
    pub vars: Vec<VarInfo>,
}

// ---------------------------------------------------------------------------------------------
// Rendering

fn render_filter(f: &QFilter) -> String {
    match &f.operand {
        Operand::None => format!("@filter(op: \"{}\")", f.op.name()),
        Operand::Var(v) => format!("@filter(op: \"{}\", value: [\"${}\"])", f.op.name(), v),
        Operand::Tag(t) => format!("@filter(op: \"{}\", value: [\"%{}\"])", f.op.name(), t),
    }
}

fn render_output(o: &Option<String>) -> String {
    match o {
        None => "@output".to_string(),
        Some(n) => format!("@output(name: \"{n}\")"),
    }
}

fn render_params(p: &BTreeMap<String, FieldValue>) -> String {
    if p.is_empty() {
        return String::new();
    }
    let parts: Vec<String> =
        p.iter().map(|(k, v)| format!("{k}: {}", fv_graphql_literal(v))).collect();
    format!("({})", parts.join(", "))
}

fn render_node_body(world: &World, n: &QNode, indent: usize, out: &mut String) {
    let pad = "    ".repeat(indent);
    let (inner_pad, inner_indent) = if let Some(ct) = n.coerce_to {
        out.push_str(&format!("{pad}... on {} {{\n", world.schema.types[ct].name));
        ("    ".repeat(indent + 1), indent + 1)
    } else {
        (pad.clone(), indent)
    };
    for item in &n.items {
        match item {
            QItem::Prop(p) => {
                let mut line = String::new();
                if let Some(a) = &p.alias {
                    line.push_str(&format!("{a}: "));
                }
                line.push_str(&p.name);
                for o in &p.outputs {
                    line.push(' ');
                    line.push_str(&render_output(o));
                }
                for t in &p.tags {
                    match t {
                        None => line.push_str(" @tag"),
                        Some(n) => line.push_str(&format!(" @tag(name: \"{n}\")")),
                    }
                }
                for f in &p.filters {
                    line.push(' ');
                    line.push_str(&render_filter(f));
                }
                out.push_str(&format!("{inner_pad}{line}\n"));
            }
            QItem::Edge(e) => {
                let mut line = String::new();
                if let Some(a) = &e.alias {
                    line.push_str(&format!("{a}: "));
                }
                line.push_str(&e.name);
                line.push_str(&render_params(&e.params));
                match &e.kind {
                    EdgeKind::Plain => {}
                    EdgeKind::Optional => line.push_str(" @optional"),
                    EdgeKind::Recurse(d) => line.push_str(&format!(" @recurse(depth: {d})")),
                    EdgeKind::Fold(fs) => {
                        line.push_str(" @fold");
                        if fs.transform_count {
                            line.push_str(" @transform(op: \"count\")");
                            for o in &fs.count_outputs {
                                line.push(' ');
                                line.push_str(&render_output(o));
                            }
                            for t in &fs.count_tags {
                                line.push_str(&format!(" @tag(name: \"{t}\")"));
                            }
                            for f in &fs.count_filters {
                                line.push(' ');
                                line.push_str(&render_filter(f));
                            }
                        }
                    }
                }
                if e.node.items.is_empty() && e.node.coerce_to.is_none() {
                    // braces may only be elided on folds; otherwise an empty selection is invalid,
                    // the generator never produces it for other kinds.
                    out.push_str(&format!("{inner_pad}{line}\n"));
                } else {
                    out.push_str(&format!("{inner_pad}{line} {{\n"));
                    render_node_body(world, &e.node, inner_indent + 1, out);
                    out.push_str(&format!("{inner_pad}}}\n"));
                }
            }
        }
    }
    if n.coerce_to.is_some() {
        out.push_str(&format!("{pad}}}\n"));
    }
}

impl QueryAst {
    pub fn render(&self, world: &World) -> String {
        let mut s = String::from("query {\n");
        s.push_str(&format!("    {}{} {{\n", self.entry, render_params(&self.entry_params)));
        render_node_body(world, &self.root, 2, &mut s);
        s.push_str("    }\n}\n");
        s
    }

    /// Recompute DFS pre-order vids after a structural transformation.
    pub fn renumber(&mut self) {
        fn go(n: &mut QNode, ctr: &mut usize) {
            n.vid = *ctr;
            *ctr += 1;
            for it in n.items.iter_mut() {
                if let QItem::Edge(e) = it {
                    go(&mut e.node, ctr);
                }
            }
        }
        let mut c = 1;
        go(&mut self.root, &mut c);
    }

    pub fn vertex_count(&self) -> usize {
        fn go(n: &QNode) -> usize {
            1 + n
                .items
                .iter()
                .map(|it| if let QItem::Edge(e) = it { go(&e.node) } else { 0 })
                .sum::<usize>()
        }
        go(&self.root)
    }

    pub fn features(&self) -> BTreeSet<&'static str> {
        fn go(n: &QNode, in_fold: bool, in_opt: bool, f: &mut BTreeSet<&'static str>) {
            if n.coerce_to.is_some() {
                f.insert("coercion");
                if in_opt {
                    f.insert("coercion_in_optional");
                }
            }
            for it in &n.items {
                match it {
                    QItem::Prop(p) => {
                        if !p.tags.is_empty() {
                            f.insert("tag");
                        }
                        for fl in &p.filters {
                            f.insert("filter");
                            if matches!(fl.operand, Operand::Tag(_)) {
                                f.insert("filter_tag");
                                if in_fold {
                                    f.insert("filter_tag_in_fold");
                                }
                            }
                            if in_opt {
                                f.insert("filter_in_optional");
                            }
                        }
                    }
                    QItem::Edge(e) => {
                        if !e.params.is_empty() {
                            f.insert("edge_params");
                        }
                        match &e.kind {
                            EdgeKind::Plain => {
                                f.insert("edge");
                                go(&e.node, in_fold, in_opt, f);
                            }
                            EdgeKind::Optional => {
                                f.insert("optional");
                                go(&e.node, in_fold, true, f);
                            }
                            EdgeKind::Recurse(_) => {
                                f.insert("recurse");
                                go(&e.node, in_fold, in_opt, f);
                            }
                            EdgeKind::Fold(fs) => {
                                f.insert("fold");
                                if in_fold {
                                    f.insert("fold_in_fold");
                                }
                                if in_opt {
                                    f.insert("fold_in_optional");
                                }
                                if !fs.count_filters.is_empty() {
                                    f.insert("count_filter");
                                    if fs
                                        .count_filters
                                        .iter()
                                        .any(|x| matches!(x.operand, Operand::Tag(_)))
                                    {
                                        f.insert("count_filter_tag");
                                    }
                                }
                                if !fs.count_outputs.is_empty() {
                                    f.insert("count_output");
                                }
                                if !fs.count_tags.is_empty() {
                                    f.insert("count_tag");
                                }
                                go(&e.node, true, false, f);
                            }
                        }
                    }
                }
            }
        }
        let mut f = BTreeSet::new();
        go(&self.root, false, false, &mut f);
        f
    }
}

// ---------------------------------------------------------------------------------------------
// Generation

#[derive(Clone, Debug)]
pub struct QueryCfg {
    pub max_vertices: usize,
    pub max_depth: usize,
    pub f_optional: bool,
    pub f_fold: bool,
    pub f_count: bool,
    pub f_recurse: bool,
    pub f_coercion: bool,
    pub f_tags: bool,
    pub f_aliases: bool,
    pub f_typename: bool,
    pub f_filters: bool,
    pub f_list_ordering: bool,
    pub op_mask: u32,
    /// C22 bias: make most edges folds with count filters.
    pub bias_fold_count: bool,
    /// C04 / C05 bias: many tags and tag operands (dynamic hints, imported tags).
    pub bias_tags: bool,
    /// bias toward @optional edges (tags / folds / coercions / filters under missing optionals)
    pub bias_optional: bool,
    /// reuse an existing variable in half of the filters (instead of 1 in 6): the frontend then
    /// has to intersect the types every use implies
    pub bias_var_reuse: bool,
    /// C04: more filters per property (candidate intersection / exclusion / range normalisation)
    pub bias_many_filters: bool,
}

impl QueryCfg {
    pub fn draw(t: &mut Tape, bias_fold_count: bool) -> QueryCfg {
        // 0 is always the simplest choice: feature off.
        let mut on = |t: &mut Tape, num: u32, den: u32| t.chance(num, den);
        QueryCfg {
            max_vertices: 1 + t.draw(8) as usize,
            max_depth: 1 + t.draw(4) as usize,
            f_optional: on(t, 3, 4),
            f_fold: on(t, 3, 4),
            f_count: on(t, 3, 4),
            f_recurse: on(t, 3, 4),
            f_coercion: on(t, 3, 4),
            f_tags: on(t, 3, 4),
            f_aliases: on(t, 1, 2),
            f_typename: on(t, 1, 2),
            f_filters: on(t, 7, 8),
            f_list_ordering: on(t, 1, 4),
            op_mask: {
                // each operator enabled with probability 3/4; all enabled with probability 1/4
                let all = on(t, 1, 4);
                let mut m = 0u32;
                for i in 0..20 {
                    if on(t, 3, 4) {
                        m |= 1 << i;
                    }
                }
                if all { 0xFFFFF } else { m }
            },
            bias_fold_count,
            bias_tags: false,
            bias_optional: false,
            bias_var_reuse: false,
            bias_many_filters: false,
        }
    }
    pub fn simplest() -> QueryCfg {
        QueryCfg {
            max_vertices: 1,
            max_depth: 1,
            f_optional: false,
            f_fold: false,
            f_count: false,
            f_recurse: false,
            f_coercion: false,
            f_tags: false,
            f_aliases: false,
            f_typename: false,
            f_filters: false,
            f_list_ordering: false,
            op_mask: 0,
            bias_fold_count: false,
            bias_tags: false,
            bias_optional: false,
            bias_var_reuse: false,
            bias_many_filters: false,
        }
    }
}

#[derive(Clone, Debug)]
struct TagInfo {
    name: String,
    ty: Ty,
    vid: usize,
    path: Vec<usize>,
    used: bool,
}

struct Gen<'a> {
    world: &'a World,
    t: &'a mut Tape,
    cfg: QueryCfg,
    next_vid: usize,
    ctr: usize,
    out_names: BTreeSet<String>,
    tags: Vec<TagInfo>,
    vars: Vec<VarInfo>,
    any_output: bool,
    /// > 0 while generating inside an @optional scope
    opt_depth: u32,
}

fn op_index(op: Op) -> u32 {
    crate::val::ALL_OPS.iter().position(|o| *o == op).unwrap() as u32
}

impl<'a> Gen<'a> {
    fn fresh(&mut self, prefix: &str) -> String {
        self.ctr += 1;
        format!("{prefix}{}", self.ctr)
    }

    fn pick_output_name(&mut self, implicit: String) -> Option<String> {
        // None => rely on the implicit name; Some => explicit.
        let explicit = self.t.chance(1, 2);
        if !explicit && !self.out_names.contains(&implicit) && valid_name(&implicit) {
            self.out_names.insert(implicit);
            None
        } else {
            loop {
                let n = self.fresh("o");
                if !self.out_names.contains(&n) {
                    self.out_names.insert(n.clone());
                    return Some(n);
                }
            }
        }
    }

    fn tag_available(tag: &TagInfo, use_vid: usize, path: &[usize]) -> bool {
        tag.vid <= use_vid && tag.path.len() <= path.len() && path[..tag.path.len()] == tag.path[..]
    }

    fn gen_filter(
        &mut self,
        subject: &Ty,
        use_vid: usize,
        path: &[usize],
        is_count: bool,
    ) -> Option<QFilter> {
        let mut ops: Vec<Op> = vec![];
        if subject.nullable() {
            ops.extend([Op::IsNull, Op::IsNotNull]);
        }
        ops.extend([Op::Eq, Op::Ne, Op::OneOf, Op::NotOneOf]);
        let orderable_base = matches!(subject.base(), Base::Int | Base::Float | Base::Str);
        if orderable_base && (!subject.is_list() || self.cfg.f_list_ordering) {
            ops.extend([Op::Lt, Op::Le, Op::Gt, Op::Ge]);
        }
        if subject.is_list() {
            ops.extend([Op::Contains, Op::NotContains]);
        }
        if matches!(subject, Ty::Named(Base::Str, _)) {
            ops.extend([
                Op::HasPrefix,
                Op::NotHasPrefix,
                Op::HasSuffix,
                Op::NotHasSuffix,
                Op::HasSubstring,
                Op::NotHasSubstring,
                Op::Regex,
                Op::NotRegex,
            ]);
        }
        let enabled: Vec<Op> =
            ops.iter().copied().filter(|o| self.cfg.op_mask & (1 << op_index(*o)) != 0).collect();
        let pick_from = if enabled.is_empty() { return None } else { enabled };
        let op = pick_from[self.t.draw(pick_from.len() as u32) as usize];
        if op.unary() {
            return Some(QFilter { op, operand: Operand::None });
        }
        // Tag operand?
        let tag_operand = if self.cfg.bias_tags { self.t.chance(3, 4) } else { self.t.chance(1, 3) };
        if self.cfg.f_tags && tag_operand {
            let compat: Vec<usize> = self
                .tags
                .iter()
                .enumerate()
                .filter(|(_, tg)| Self::tag_available(tg, use_vid, path))
                .filter(|(_, tg)| match op {
                    Op::Eq | Op::Ne => tg.ty.eq_ignoring_nullability(subject),
                    Op::Lt | Op::Le | Op::Gt | Op::Ge => tg.ty.eq_ignoring_nullability(subject),
                    Op::Contains | Op::NotContains => {
                        subject.elem().map(|e| e.eq_ignoring_nullability(&tg.ty)).unwrap_or(false)
                    }
                    Op::OneOf | Op::NotOneOf => {
                        tg.ty.elem().map(|e| e.eq_ignoring_nullability(subject)).unwrap_or(false)
                    }
                    _ => matches!(tg.ty, Ty::Named(Base::Str, _)),
                })
                .map(|(i, _)| i)
                .collect();
            if !compat.is_empty() {
                let i = compat[self.t.draw(compat.len() as u32) as usize];
                self.tags[i].used = true;
                return Some(QFilter { op, operand: Operand::Tag(self.tags[i].name.clone()) });
            }
        }
        // Variable operand
        let vty = match op {
            Op::Eq | Op::Ne => subject.clone(),
            Op::Lt | Op::Le | Op::Gt | Op::Ge => subject.with_nullable(false),
            Op::Contains | Op::NotContains => subject.elem().unwrap().clone(),
            Op::OneOf | Op::NotOneOf => Ty::list(subject.clone(), false),
            _ => Ty::named(Base::Str, false),
        };
        let is_regex = matches!(op, Op::Regex | Op::NotRegex);
        // Reuse an existing variable sometimes when the types can intersect.
        let reuse = if self.cfg.bias_var_reuse { self.t.chance(1, 2) } else { self.t.chance(1, 6) };
        if reuse {
            let cands: Vec<usize> = self
                .vars
                .iter()
                .enumerate()
                .filter(|(_, v)| v.ty.intersect(&vty).is_some())
                .map(|(i, _)| i)
                .collect();
            if !cands.is_empty() {
                let i = cands[self.t.draw(cands.len() as u32) as usize];
                let nt = self.vars[i].ty.intersect(&vty).unwrap();
                self.vars[i].ty = nt;
                self.vars[i].regex |= is_regex;
                self.vars[i].count |= is_count;
                return Some(QFilter { op, operand: Operand::Var(self.vars[i].name.clone()) });
            }
        }
        let name = self.fresh("v");
        self.vars.push(VarInfo { name: name.clone(), ty: vty, regex: is_regex, count: is_count });
        Some(QFilter { op, operand: Operand::Var(name) })
    }

    fn gen_prop(&mut self, node_ty: usize, vid: usize, path: &[usize], prefix: &str) -> Option<QProp> {
        let tdef = &self.world.schema.types[node_ty];
        let mut names: Vec<(String, Ty)> =
            tdef.props.iter().map(|p| (p.name.clone(), p.ty.clone())).collect();
        if self.cfg.f_typename {
            names.push(("__typename".to_string(), Ty::named(Base::Str, false)));
        }
        if names.is_empty() {
            return None;
        }
        let (mut name, mut ty) = names[self.t.draw(names.len() as u32) as usize].clone();
        // Tag bias: half of the time, if a tag defined earlier is still unused and some property
        // here has its type, select that property and filter it against the tag (so that tags -
        // count tags in particular - flow into later vertices and sibling folds instead of
        // being stripped as unused).
        let mut forced_tag: Option<usize> = None;
        if self.cfg.bias_tags && self.cfg.f_tags && self.cfg.f_filters && self.t.chance(1, 2) {
            let mut pairs: Vec<(usize, usize)> = vec![];
            for (ti, tg) in self.tags.iter().enumerate() {
                if tg.used || !Self::tag_available(tg, vid, path) || tg.ty.is_list() {
                    continue;
                }
                for (ni, (_, nty)) in names.iter().enumerate() {
                    if !nty.is_list() && tg.ty.eq_ignoring_nullability(nty) {
                        pairs.push((ti, ni));
                    }
                }
            }
            if !pairs.is_empty() {
                let (ti, ni) = pairs[self.t.draw(pairs.len() as u32) as usize];
                name = names[ni].0.clone();
                ty = names[ni].1.clone();
                forced_tag = Some(ti);
            }
        }
        let alias = if self.cfg.f_aliases && self.t.chance(1, 4) {
            Some(self.fresh("a"))
        } else {
            None
        };
        let mut outputs = vec![];
        if self.t.chance(1, 2) {
            let implicit = format!("{prefix}{}", alias.clone().unwrap_or(name.clone()));
            outputs.push(self.pick_output_name(implicit));
            self.any_output = true;
            if self.t.chance(1, 8) {
                // the same property output twice under two names
                let n = loop {
                    let n = self.fresh("o");
                    if !self.out_names.contains(&n) {
                        break n;
                    }
                };
                self.out_names.insert(n.clone());
                outputs.push(Some(n));
            }
        }
        let mut filters = vec![];
        if let Some(ti) = forced_tag {
            let mut ops = vec![Op::Eq, Op::Ne];
            if matches!(ty.base(), Base::Int | Base::Float | Base::Str) {
                ops.extend([Op::Lt, Op::Le, Op::Gt, Op::Ge]);
            }
            let enabled: Vec<Op> =
                ops.iter().copied().filter(|o| self.cfg.op_mask & (1 << op_index(*o)) != 0).collect();
            if !enabled.is_empty() {
                let op = enabled[self.t.draw(enabled.len() as u32) as usize];
                self.tags[ti].used = true;
                filters.push(QFilter { op, operand: Operand::Tag(self.tags[ti].name.clone()) });
            }
        }
        if self.cfg.f_filters {
            let nf = if self.cfg.bias_many_filters {
                [0, 1, 1, 2, 3, 4][self.t.draw(6) as usize]
            } else {
                [0, 0, 0, 1, 1, 2][self.t.draw(6) as usize]
            };
            for _ in 0..nf {
                if let Some(f) = self.gen_filter(&ty, vid, path, false) {
                    filters.push(f);
                }
            }
        }
        let mut tags = vec![];
        let want_tag = if self.cfg.bias_tags { self.t.chance(2, 3) } else { self.t.chance(1, 3) };
        if self.cfg.f_tags && want_tag {
            // implicit tag name (alias, else field name) when it is still free
            let implicit = alias.clone().unwrap_or(name.clone());
            let use_implicit = self.t.chance(1, 4)
                && valid_name(&implicit)
                && !self.tags.iter().any(|t| t.name == implicit);
            let tname = if use_implicit { implicit } else { self.fresh("t") };
            self.tags.push(TagInfo {
                name: tname.clone(),
                ty: ty.clone(),
                vid,
                path: path.to_vec(),
                used: false,
            });
            tags.push(if use_implicit { None } else { Some(tname) });
            if self.t.chance(1, 8) {
                // the same property tagged twice under two names
                let t2 = self.fresh("t");
                self.tags.push(TagInfo { name: t2.clone(), ty: ty.clone(), vid, path: path.to_vec(), used: false });
                tags.push(Some(t2));
            }
        }
        Some(QProp { name, alias, ty, outputs, tags, filters })
    }

    fn gen_edge(
        &mut self,
        node_ty: usize,
        parent_vid: usize,
        depth: usize,
        path: &[usize],
        prefix: &str,
    ) -> Option<QEdge> {
        let tdef = &self.world.schema.types[node_ty];
        if tdef.edges.is_empty() {
            return None;
        }
        let edef = tdef.edges[self.t.draw(tdef.edges.len() as u32) as usize].clone();
        // kind
        let mut kinds: Vec<u8> = vec![0, 0];
        if self.cfg.f_optional {
            kinds.push(1);
            if self.cfg.bias_optional {
                kinds.extend([1, 1, 1]);
            }
        }
        if self.cfg.f_fold {
            kinds.push(2);
            if self.cfg.bias_fold_count {
                kinds.extend([2, 2, 2, 2]);
            }
            // inside an @optional scope (optional bias): folds with tagged counts, so that count
            // tags from folds that do not exist flow into later filters and sibling folds
            if self.cfg.bias_optional && self.opt_depth > 0 {
                kinds.extend([2, 2, 2]);
            }
        }
        if self.cfg.f_recurse && self.world.schema.recurse_rule(node_ty, &edef).is_ok() {
            kinds.push(3);
            kinds.push(3);
        }
        let k = kinds[self.t.draw(kinds.len() as u32) as usize];
        let mut params = BTreeMap::new();
        for p in &edef.params {
            let required = p.default.is_none() && !p.ty.nullable();
            if required || self.t.chance(1, 2) {
                params.insert(p.name.clone(), gen_fv(&p.ty, self.t));
            }
        }
        let alias = if self.cfg.f_aliases && self.t.chance(1, 4) {
            Some(self.fresh("a"))
        } else {
            None
        };
        let child_prefix = format!("{prefix}{}", alias.clone().unwrap_or_default());
        let child_vid = self.next_vid;
        let _ = parent_vid;
        match k {
            2 => {
                let mut child_path = path.to_vec();
                child_path.push(child_vid);
                let allow_empty = true;
                let node = self.gen_node(edef.target, depth + 1, &child_path, &child_prefix, allow_empty);
                let mut fs = FoldSpec::default();
                let under_opt = self.cfg.bias_optional && self.opt_depth > 0;
                let want_count = (self.cfg.f_count || under_opt)
                    && (self.t.chance(1, 2)
                        || (self.cfg.bias_fold_count && self.t.chance(3, 4))
                        || (under_opt && self.t.chance(3, 4)));
                if want_count {
                    fs.transform_count = true;
                    if self.t.chance(1, 2) {
                        let local = if alias.is_some() { String::new() } else { edef.name.clone() };
                        let implicit = format!("{child_prefix}{local}count");
                        fs.count_outputs.push(self.pick_output_name(implicit));
                        self.any_output = true;
                    }
                    let nf = if self.cfg.bias_fold_count {
                        [0, 1, 1, 1, 2, 2][self.t.draw(6) as usize]
                    } else {
                        [0, 0, 1, 1, 1, 2][self.t.draw(6) as usize]
                    };
                    for _ in 0..nf {
                        let int_nn = Ty::named(Base::Int, false);
                        if let Some(f) = self.gen_filter(&int_nn, child_vid, path, true) {
                            // is_null / is_not_null are never offered for Int!
                            fs.count_filters.push(f);
                        }
                    }
                    let want_count_tag = if self.cfg.bias_tags || under_opt {
                        self.t.chance(2, 3)
                    } else {
                        self.t.chance(1, 3)
                    };
                    if self.cfg.f_tags && want_count_tag {
                        let tname = self.fresh("t");
                        self.tags.push(TagInfo {
                            name: tname.clone(),
                            ty: Ty::named(Base::Int, false),
                            vid: child_vid,
                            path: path.to_vec(),
                            used: false,
                        });
                        fs.count_tags.push(tname);
                    }
                }
                Some(QEdge { name: edef.name, alias, params, kind: EdgeKind::Fold(fs), node })
            }
            3 => {
                let d = 1 + self.t.draw(3);
                let node = self.gen_node(edef.target, depth + 1, path, &child_prefix, false);
                Some(QEdge { name: edef.name, alias, params, kind: EdgeKind::Recurse(d), node })
            }
            1 => {
                self.opt_depth += 1;
                let node = self.gen_node(edef.target, depth + 1, path, &child_prefix, false);
                self.opt_depth -= 1;
                Some(QEdge { name: edef.name, alias, params, kind: EdgeKind::Optional, node })
            }
            _ => {
                let node = self.gen_node(edef.target, depth + 1, path, &child_prefix, false);
                Some(QEdge { name: edef.name, alias, params, kind: EdgeKind::Plain, node })
            }
        }
    }

    fn gen_node(
        &mut self,
        static_ty: usize,
        depth: usize,
        path: &[usize],
        prefix: &str,
        allow_empty: bool,
    ) -> QNode {
        let vid = self.next_vid;
        self.next_vid += 1;
        let mut coerce_to = None;
        if self.cfg.f_coercion && self.world.schema.types[static_ty].is_interface {
            let subs = self.world.schema.strict_subtypes_of(static_ty);
            if !subs.is_empty() && self.t.chance(1, 3) {
                coerce_to = Some(subs[self.t.draw(subs.len() as u32) as usize]);
            }
        }
        let eff = coerce_to.unwrap_or(static_ty);
        let n_items = self.t.draw(5);
        let mut items = vec![];
        for _ in 0..n_items {
            let want_edge = self.t.chance(1, 2);
            if want_edge && depth < self.cfg.max_depth && self.next_vid <= self.cfg.max_vertices {
                if let Some(e) = self.gen_edge(eff, vid, depth, path, prefix) {
                    items.push(QItem::Edge(e));
                    continue;
                }
            }
            if let Some(p) = self.gen_prop(eff, vid, path, prefix) {
                items.push(QItem::Prop(p));
            }
        }
        if items.is_empty() && !(allow_empty && coerce_to.is_none()) {
            // A selection set must not be empty: select __typename (always available).
            let implicit = format!("{prefix}__typename");
            let o = self.pick_output_name(implicit);
            self.any_output = true;
            items.push(QItem::Prop(QProp {
                name: "__typename".to_string(),
                alias: None,
                ty: Ty::named(Base::Str, false),
                outputs: vec![o],
                tags: vec![],
                filters: vec![],
            }));
        }
        QNode { static_ty, coerce_to, items, vid }
    }
}

pub fn valid_name(s: &str) -> bool {
    !s.is_empty() && s.chars().all(|c| c.is_ascii_alphanumeric() || c == '_')
}

fn strip_unused_tags(n: &mut QNode, unused: &BTreeSet<String>) {
    for it in n.items.iter_mut() {
        match it {
            QItem::Prop(p) => {
                let implicit = p.alias.clone().unwrap_or(p.name.clone());
                p.tags.retain(|t| match t {
                    Some(name) => !unused.contains(name),
                    None => !unused.contains(&implicit),
                });
            }
            QItem::Edge(e) => {
                if let EdgeKind::Fold(fs) = &mut e.kind {
                    fs.count_tags.retain(|t| !unused.contains(t));
                }
                strip_unused_tags(&mut e.node, unused);
            }
        }
    }
}

pub fn gen_query(world: &World, t: &mut Tape, cfg: QueryCfg) -> QueryAst {
    let eps = &world.schema.entry;
    let ep = eps[t.draw(eps.len() as u32) as usize].clone();
    let mut entry_params = BTreeMap::new();
    for p in &ep.params {
        let required = p.default.is_none() && !p.ty.nullable();
        if required || t.chance(1, 2) {
            entry_params.insert(p.name.clone(), gen_fv(&p.ty, t));
        }
    }
    let mut g = Gen {
        world,
        t,
        cfg,
        next_vid: 1,
        ctr: 0,
        out_names: BTreeSet::new(),
        tags: vec![],
        vars: vec![],
        any_output: false,
        opt_depth: 0,
    };
    let mut root = g.gen_node(ep.target, 1, &[1], "", false);
    if !g.any_output {
        let o = g.pick_output_name("__typename".to_string());
        let eff_items = &mut root.items;
        eff_items.push(QItem::Prop(QProp {
            name: "__typename".to_string(),
            alias: None,
            ty: Ty::named(Base::Str, false),
            outputs: vec![o],
            tags: vec![],
            filters: vec![],
        }));
    }
    let unused: BTreeSet<String> =
        g.tags.iter().filter(|t| !t.used).map(|t| t.name.clone()).collect();
    strip_unused_tags(&mut root, &unused);
    let vars = g.vars.clone();
    QueryAst { entry: ep.name, entry_params, root, vars }
}

const REGEX_POOL: [&str; 8] = ["a", "^a", "b$", "a.*b", "(", "[a", "", "^$"];
const COUNT_POOL: [i128; 12] =
    [0, 1, 2, 3, 1, 2, 4, -1, (i64::MAX as i128) + 1, u64::MAX as i128, i64::MIN as i128, 0];

/// Argument values for the query's variables: valid for the inferred types, deliberately
/// including accepted-but-unusual values.
pub fn gen_args(q: &QueryAst, world: &World, t: &mut Tape) -> BTreeMap<String, FieldValue> {
    // Strings that occur in the dataset (property values and type names): filters on strings
    // would otherwise rarely match anything but the small generic pool.
    let mut strs: Vec<String> = vec![];
    for v in &world.vertices {
        for x in v.props.values() {
            collect_strings(x, &mut strs);
        }
    }
    for ty in &world.schema.types {
        strs.push(ty.name.clone());
    }
    strs.sort();
    strs.dedup();
    strs.truncate(32);
    let mut out = BTreeMap::new();
    for v in &q.vars {
        let mut val = if v.regex && matches!(v.ty, Ty::Named(Base::Str, _)) && t.chance(1, 2) {
            mk_str(REGEX_POOL[t.draw(8) as usize])
        } else if v.count {
            gen_count_arg(&v.ty, t)
        } else {
            gen_fv(&v.ty, t)
        };
        if v.ty.base() == Base::Str && !strs.is_empty() && t.chance(1, 2) {
            val = replace_strings(&val, &strs, t);
        }
        out.insert(v.name.clone(), val);
    }
    out
}

fn collect_strings(v: &FieldValue, out: &mut Vec<String>) {
    match v {
        FieldValue::String(s) => out.push(s.to_string()),
        FieldValue::List(l) => l.iter().for_each(|x| collect_strings(x, out)),
        _ => {}
    }
}

fn replace_strings(v: &FieldValue, strs: &[String], t: &mut Tape) -> FieldValue {
    match v {
        FieldValue::String(_) => mk_str(&strs[t.draw(strs.len() as u32) as usize]),
        FieldValue::List(l) => {
            FieldValue::List(l.iter().map(|x| replace_strings(x, strs, t)).collect::<Vec<_>>().into())
        }
        other => other.clone(),
    }
}

fn gen_count_arg(ty: &Ty, t: &mut Tape) -> FieldValue {
    match ty {
        Ty::Named(Base::Int, nullable) => {
            if *nullable && t.draw(8) == 7 {
                return FieldValue::Null;
            }
            let i = COUNT_POOL[t.draw(12) as usize];
            int_fv(i, t.draw(2) == 1)
        }
        Ty::List(inner, _) => {
            let n = t.draw(4);
            let items: Vec<FieldValue> = (0..n).map(|_| gen_count_arg(inner, t)).collect();
            FieldValue::List(items.into())
        }
        other => gen_fv(other, t),
    }
}
