//! The simulated world: a schema AST the harness owns, rendered to text for the real
//! `Schema::parse`, and a finite dataset conforming to it.

use std::collections::{BTreeMap, BTreeSet};

use trustfall_core::ir::FieldValue;

use crate::tape::{Tape, fnv1a};
use crate::val::{Base, Holds, Op, Ty, Val, fv_graphql_literal, fv_render, holds, mk_str};

#[derive(Clone, Debug)]
pub struct PropDef {
    pub name: String,
    pub ty: Ty,
}

#[derive(Clone, Copy, Debug, PartialEq, Eq)]
pub enum Card {
    ZeroOrOne,   // T
    One,         // T!
    Many,        // [T!]
    ManyNonNull, // [T!]!
}

impl Card {
    pub fn render(&self, target: &str) -> String {
        match self {
            Card::ZeroOrOne => target.to_string(),
            Card::One => format!("{target}!"),
            Card::Many => format!("[{target}!]"),
            Card::ManyNonNull => format!("[{target}!]!"),
        }
    }
    pub fn to_many(&self) -> bool {
        matches!(self, Card::Many | Card::ManyNonNull)
    }
}

#[derive(Clone, Debug, PartialEq, Eq)]
pub enum ParamMeaning {
    /// keep neighbors whose property `=` the parameter (null-safe)
    EqProp(String),
    /// keep neighbors whose property `>=` the parameter
    MinProp(String),
    /// keep neighbors by a hash of (parameter value, neighbor id)
    Opaque,
    /// the data source ignores the parameter (used by the C23 "equivalent filter" relation)
    Ignored,
}

#[derive(Clone, Debug)]
pub struct ParamDef {
    pub name: String,
    pub ty: Ty,
    pub default: Option<FieldValue>,
    pub meaning: ParamMeaning,
}

#[derive(Clone, Debug)]
pub struct EdgeDef {
    pub name: String,
    pub target: usize,
    pub card: Card,
    pub params: Vec<ParamDef>,
    /// The type that first defined this edge.
    pub origin: usize,
}

#[derive(Clone, Debug)]
pub struct TypeDef {
    pub name: String,
    pub is_interface: bool,
    /// Transitive, sorted, excluding self.
    pub implements: Vec<usize>,
    /// All properties including inherited ones.
    pub props: Vec<PropDef>,
    /// All edges including inherited ones (possibly narrowed).
    pub edges: Vec<EdgeDef>,
}

#[derive(Clone, Debug)]
pub struct EntryPoint {
    pub name: String,
    pub target: usize,
    pub card: Card,
    pub params: Vec<ParamDef>,
    pub vertices: Vec<u32>,
}

#[derive(Clone, Debug)]
pub struct SchemaAst {
    pub root_name: String,
    pub types: Vec<TypeDef>,
    pub entry: Vec<EntryPoint>,
}

#[derive(Clone, Debug)]
pub struct VertexData {
    pub ty: usize,
    pub props: BTreeMap<String, FieldValue>,
    pub adj: BTreeMap<String, Vec<u32>>,
}

#[derive(Clone, Debug)]
pub struct World {
    pub schema: SchemaAst,
    pub vertices: Vec<VertexData>,
}

pub const DIRECTIVES: &str = "directive @filter(op: String!, value: [String!]) repeatable on FIELD | INLINE_FRAGMENT
directive @tag(name: String) repeatable on FIELD
directive @output(name: String) repeatable on FIELD
directive @optional on FIELD
directive @recurse(depth: Int!) on FIELD
directive @fold on FIELD
directive @transform(op: String!) repeatable on FIELD
";

impl SchemaAst {
    pub fn type_index(&self, name: &str) -> Option<usize> {
        self.types.iter().position(|t| t.name == name)
    }
    pub fn is_subtype(&self, sub: usize, sup: usize) -> bool {
        sub == sup || self.types[sub].implements.contains(&sup)
    }
    pub fn subtypes_of(&self, sup: usize) -> Vec<usize> {
        (0..self.types.len()).filter(|t| self.is_subtype(*t, sup)).collect()
    }
    pub fn strict_subtypes_of(&self, sup: usize) -> Vec<usize> {
        (0..self.types.len()).filter(|t| *t != sup && self.is_subtype(*t, sup)).collect()
    }
    pub fn prop(&self, ty: usize, name: &str) -> Option<&PropDef> {
        self.types[ty].props.iter().find(|p| p.name == name)
    }
    pub fn edge(&self, ty: usize, name: &str) -> Option<&EdgeDef> {
        self.types[ty].edges.iter().find(|e| e.name == name)
    }
    pub fn entry_point(&self, name: &str) -> Option<&EntryPoint> {
        self.entry.iter().find(|e| e.name == name)
    }

    /// The harness's own statement of when `@recurse` is allowed on edge `e` from static type `s`,
    /// and which implicit coercion applies. Ok(None): no coercion; Ok(Some(x)): coerce to x from
    /// depth 1 on; Err: not recursable.
    pub fn recurse_rule(&self, s: usize, e: &EdgeDef) -> Result<Option<usize>, ()> {
        let d = e.target;
        if !self.is_subtype(s, d) {
            return Err(());
        }
        if s == d {
            return Ok(None);
        }
        match self.edge(d, &e.name) {
            Some(de) => {
                if de.target == d {
                    Ok(None)
                } else {
                    Err(())
                }
            }
            None => {
                let x = e.origin;
                match self.edge(x, &e.name) {
                    Some(xe) if xe.target == d => Ok(Some(x)),
                    _ => Err(()),
                }
            }
        }
    }

    pub fn render(&self) -> String {
        let mut s = String::new();
        s.push_str(&format!("schema {{\n    query: {}\n}}\n", self.root_name));
        s.push_str(DIRECTIVES);
        s.push_str(&format!("\ntype {} {{\n", self.root_name));
        for ep in &self.entry {
            s.push_str(&format!(
                "    {}{}: {}\n",
                ep.name,
                render_params(&ep.params),
                ep.card.render(&self.types[ep.target].name)
            ));
        }
        s.push_str("}\n");
        for t in &self.types {
            let kw = if t.is_interface { "interface" } else { "type" };
            let imp = if t.implements.is_empty() {
                String::new()
            } else {
                format!(
                    " implements {}",
                    t.implements
                        .iter()
                        .map(|i| self.types[*i].name.clone())
                        .collect::<Vec<_>>()
                        .join(" & ")
                )
            };
            s.push_str(&format!("\n{kw} {}{imp} {{\n", t.name));
            for p in &t.props {
                s.push_str(&format!("    {}: {}\n", p.name, p.ty.render()));
            }
            for e in &t.edges {
                s.push_str(&format!(
                    "    {}{}: {}\n",
                    e.name,
                    render_params(&e.params),
                    e.card.render(&self.types[e.target].name)
                ));
            }
            s.push_str("}\n");
        }
        s
    }
}

fn render_params(params: &[ParamDef]) -> String {
    if params.is_empty() {
        return String::new();
    }
    let parts: Vec<String> = params
        .iter()
        .map(|p| match &p.default {
            Some(d) => format!("{}: {} = {}", p.name, p.ty.render(), fv_graphql_literal(d)),
            None => format!("{}: {}", p.name, p.ty.render()),
        })
        .collect();
    format!("({})", parts.join(", "))
}

impl World {
    pub fn concrete_type(&self, v: u32) -> usize {
        self.vertices[v as usize].ty
    }
    pub fn is_instance(&self, v: u32, ty: usize) -> bool {
        self.schema.is_subtype(self.vertices[v as usize].ty, ty)
    }
    pub fn prop_fv(&self, v: u32, name: &str) -> FieldValue {
        if name == "__typename" {
            return mk_str(&self.schema.types[self.vertices[v as usize].ty].name);
        }
        self.vertices[v as usize].props.get(name).cloned().unwrap_or(FieldValue::Null)
    }
    pub fn prop_val(&self, v: u32, name: &str) -> Val {
        Val::from_fv(&self.prop_fv(v, name))
    }

    fn passes_params(
        &self,
        u: u32,
        defs: &[ParamDef],
        params: &BTreeMap<String, FieldValue>,
    ) -> bool {
        for d in defs {
            let pv = match params.get(&d.name) {
                Some(v) => v,
                None => continue,
            };
            let ok = match &d.meaning {
                ParamMeaning::EqProp(p) => {
                    holds(Op::Eq, &self.prop_val(u, p), &Val::from_fv(pv)) == Holds::Yes
                }
                ParamMeaning::MinProp(p) => {
                    holds(Op::Ge, &self.prop_val(u, p), &Val::from_fv(pv)) == Holds::Yes
                }
                ParamMeaning::Ignored => true,
                ParamMeaning::Opaque => {
                    let key = format!("{}|{}|{}", d.name, Val::from_fv(pv).render(), u);
                    fnv1a(key.as_bytes()) % 3 != 0
                }
            };
            if !ok {
                return false;
            }
        }
        true
    }

    /// The data source's answer for an edge: a deterministic function of (vertex, edge, params).
    pub fn neighbors(&self, v: u32, edge: &str, params: &BTreeMap<String, FieldValue>) -> Vec<u32> {
        let vt = self.vertices[v as usize].ty;
        let Some(def) = self.schema.edge(vt, edge) else {
            return vec![];
        };
        let Some(adj) = self.vertices[v as usize].adj.get(edge) else {
            return vec![];
        };
        adj.iter().copied().filter(|u| self.passes_params(*u, &def.params, params)).collect()
    }

    pub fn starting(&self, entry: &str, params: &BTreeMap<String, FieldValue>) -> Vec<u32> {
        let Some(ep) = self.schema.entry_point(entry) else {
            return vec![];
        };
        ep.vertices.iter().copied().filter(|u| self.passes_params(*u, &ep.params, params)).collect()
    }

    pub fn render_dataset(&self) -> serde_json::Value {
        let mut out = vec![];
        for (i, v) in self.vertices.iter().enumerate() {
            let props: BTreeMap<String, String> =
                v.props.iter().map(|(k, x)| (k.clone(), fv_render(x))).collect();
            out.push(serde_json::json!({
                "id": i,
                "type": self.schema.types[v.ty].name,
                "props": props,
                "adj": v.adj,
            }));
        }
        let eps: BTreeMap<String, Vec<u32>> =
            self.schema.entry.iter().map(|e| (e.name.clone(), e.vertices.clone())).collect();
        serde_json::json!({"vertices": out, "entry_points": eps})
    }
}

// ---------------------------------------------------------------------------------------------
// Generation

const INT_POOL: [i128; 16] = [
    0,
    1,
    2,
    3,
    1,
    2,
    -1,
    5,
    0,
    10,
    -2,
    i64::MAX as i128,
    i64::MIN as i128,
    u64::MAX as i128,
    (i64::MAX as i128) + 1,
    4,
];
const STR_POOL: [&str; 8] = ["", "a", "ab", "b", "ba", "abc", "a", "b"];
const FLOAT_POOL: [f64; 6] = [0.0, 1.5, -2.25, 1.0e10, 1.5, 3.0];

pub fn gen_int(t: &mut Tape) -> FieldValue {
    let i = INT_POOL[t.draw(16) as usize];
    let unsigned = t.draw(2) == 1;
    int_fv(i, unsigned)
}

pub fn int_fv(i: i128, unsigned: bool) -> FieldValue {
    if i < 0 {
        FieldValue::Int64(i as i64)
    } else if i > i64::MAX as i128 {
        FieldValue::Uint64(i as u64)
    } else if unsigned {
        FieldValue::Uint64(i as u64)
    } else {
        FieldValue::Int64(i as i64)
    }
}

/// A value valid for `ty`, from small pools rich in collisions and boundaries.
pub fn gen_fv(ty: &Ty, t: &mut Tape) -> FieldValue {
    if ty.nullable() && t.draw(5) == 4 {
        return FieldValue::Null;
    }
    match ty {
        Ty::Named(Base::Int, _) => gen_int(t),
        Ty::Named(Base::Float, _) => FieldValue::Float64(FLOAT_POOL[t.draw(6) as usize]),
        Ty::Named(Base::Str, _) => mk_str(STR_POOL[t.draw(8) as usize]),
        Ty::Named(Base::Bool, _) => FieldValue::Boolean(t.draw(2) == 1),
        Ty::List(inner, _) => {
            let n = t.draw(4);
            let items: Vec<FieldValue> = (0..n).map(|_| gen_fv(inner, t)).collect();
            FieldValue::List(items.into())
        }
    }
}

const PROP_TYPES: [&str; 12] = [
    "Int", "Int!", "String", "String!", "Int", "String", "Float", "Boolean", "[Int]", "[Int!]!",
    "[String]", "[[Int]]",
];

#[derive(Clone, Debug)]
pub struct WorldConfig {
    pub max_vertices: u32,
    pub max_degree: u32,
}

pub fn gen_world(t: &mut Tape) -> World {
    let schema = gen_schema(t);
    gen_dataset(schema, t)
}

pub fn gen_schema(t: &mut Tape) -> SchemaAst {
    let n_ifaces = t.draw(4) as usize;
    let n_objs = 1 + t.draw(4) as usize;
    let mut types: Vec<TypeDef> = vec![];
    let mut own_props: Vec<Vec<PropDef>> = vec![];
    let mut own_edges_n: Vec<u32> = vec![];
    let mut prop_ctr = 0;

    for k in 0..(n_ifaces + n_objs) {
        let is_interface = k < n_ifaces;
        let name = if is_interface { format!("I{k}") } else { format!("T{}", k - n_ifaces) };
        // implements: subset of earlier interfaces, closed transitively
        let mut imp: BTreeSet<usize> = BTreeSet::new();
        let upto = if is_interface { k } else { n_ifaces };
        for j in 0..upto {
            if t.chance(1, 2) {
                imp.insert(j);
                for x in &types[j].implements {
                    imp.insert(*x);
                }
            }
        }
        let mut np = t.draw(4);
        let n_own_edges = t.draw(3);
        let inherits_fields = imp.iter().any(|j| !own_props[*j].is_empty() || own_edges_n[*j] > 0);
        if np == 0 && !inherits_fields && n_own_edges == 0 {
            // a type definition must have at least one field (a type with edges only is fine)
            np = 1;
        }
        let mut props = vec![];
        for _ in 0..np {
            let ty = Ty::parse(PROP_TYPES[t.draw(12) as usize]).unwrap();
            props.push(PropDef { name: format!("p{prop_ctr}"), ty });
            prop_ctr += 1;
        }
        own_props.push(props);
        own_edges_n.push(n_own_edges);
        types.push(TypeDef {
            name,
            is_interface,
            implements: imp.into_iter().collect(),
            props: vec![],
            edges: vec![],
        });
    }
    let nt = types.len();
    // Full property lists: inherited first (in type-index order), then own.
    for k in 0..nt {
        let mut props = vec![];
        for j in types[k].implements.clone() {
            for p in &own_props[j] {
                props.push(p.clone());
            }
        }
        // Object types may narrow an inherited property to its non-null form (schema rule:
        // inherited fields are present and only narrowed).
        if !types[k].is_interface {
            for p in props.iter_mut() {
                if p.ty.nullable() && t.chance(1, 6) {
                    p.ty = p.ty.with_nullable(false);
                }
            }
        }
        props.extend(own_props[k].iter().cloned());
        types[k].props = props;
    }
    // Own edges: targets may be any type, including supertypes and the type itself.
    let mut edge_ctr = 0;
    let mut own_edges: Vec<Vec<EdgeDef>> = vec![vec![]; nt];
    for k in 0..nt {
        for i in 0..own_edges_n[k] {
            // bias the first own edge toward the type itself or one of its supertypes
            let target = if i == 0 && t.chance(1, 2) {
                let mut cands = vec![k];
                cands.extend(types[k].implements.iter().copied());
                cands[t.draw(cands.len() as u32) as usize]
            } else {
                t.draw(nt as u32) as usize
            };
            let card = match t.draw(4) {
                0 => Card::Many,
                1 => Card::ZeroOrOne,
                2 => Card::ManyNonNull,
                _ => Card::One,
            };
            let params = gen_params(&types[target].props, t, &format!("e{edge_ctr}"));
            // Sometimes an object type reuses the *name* of an edge that an unrelated type defines
            // (another object type, or an interface it does not implement), with its own,
            // independently drawn target, cardinality and parameter declarations: anything the
            // engine keys by edge name alone instead of (type, edge) then mixes the two up.
            let mut name = format!("e{edge_ctr}");
            if !types[k].is_interface && t.chance(1, 4) {
                let mut taken: BTreeSet<String> = own_edges[k].iter().map(|e| e.name.clone()).collect();
                for j in &types[k].implements {
                    for e in &own_edges[*j] {
                        taken.insert(e.name.clone());
                    }
                }
                let mut cands: Vec<String> = vec![];
                for j in 0..k {
                    if types[k].implements.contains(&j) {
                        continue;
                    }
                    for e in &own_edges[j] {
                        if !taken.contains(&e.name) && !cands.contains(&e.name) {
                            cands.push(e.name.clone());
                        }
                    }
                }
                if !cands.is_empty() {
                    name = cands[t.draw(cands.len() as u32) as usize].clone();
                }
            }
            own_edges[k].push(EdgeDef { name, target, card, params, origin: k });
            edge_ctr += 1;
        }
    }
    for k in 0..nt {
        let mut edges = vec![];
        for j in types[k].implements.clone() {
            for e in &own_edges[j] {
                let mut e = e.clone();
                // Objects may narrow an inherited edge's target to one of its subtypes.
                if !types[k].is_interface && t.chance(1, 4) {
                    let subs: Vec<usize> = (0..nt)
                        .filter(|x| *x == e.target || types[*x].implements.contains(&e.target))
                        .collect();
                    let pick = subs[t.draw(subs.len() as u32) as usize];
                    // parameters keep their meaning only if the property exists on the new target;
                    // properties are inherited by subtypes, so it always does.
                    e.target = pick;
                }
                edges.push(e);
            }
        }
        edges.extend(own_edges[k].iter().cloned());
        types[k].edges = edges;
    }
    // Entry points
    let n_ep = 1 + t.draw(3) as usize;
    let mut entry = vec![];
    for i in 0..n_ep {
        let target = if i == 0 { t.draw(nt as u32) as usize } else { t.draw(nt as u32) as usize };
        let params = if t.chance(1, 3) {
            gen_params(&types[target].props, t, &format!("Ep{i}"))
        } else {
            vec![]
        };
        entry.push(EntryPoint {
            name: format!("Ep{i}"),
            target,
            card: match t.draw(6) {
                0 => Card::Many,
                1 => Card::One,
                2 => Card::ZeroOrOne,
                _ => Card::ManyNonNull,
            },
            params,
            vertices: vec![],
        });
    }
    SchemaAst { root_name: "RootQ".to_string(), types, entry }
}

fn gen_params(target_props: &[PropDef], t: &mut Tape, _owner: &str) -> Vec<ParamDef> {
    let n = match t.draw(6) {
        0..=3 => 0,
        4 => 1,
        _ => 2,
    };
    let mut out = vec![];
    for i in 0..n {
        let name = format!("x{i}");
        let scalar_props: Vec<&PropDef> = target_props
            .iter()
            .filter(|p| matches!(p.ty, Ty::Named(Base::Int | Base::Str | Base::Float, _)))
            .collect();
        let (meaning, base_ty) = if !scalar_props.is_empty() && t.chance(2, 3) {
            let p = scalar_props[t.draw(scalar_props.len() as u32) as usize];
            if t.chance(1, 2) {
                (ParamMeaning::MinProp(p.name.clone()), p.ty.with_nullable(false))
            } else {
                (ParamMeaning::EqProp(p.name.clone()), p.ty.clone())
            }
        } else if t.chance(1, 4) {
            // a list-typed parameter (opaque to the data source's semantics)
            let lt = match t.draw(3) {
                0 => Ty::list(Ty::named(Base::Int, false), true),
                1 => Ty::list(Ty::named(Base::Str, true), false),
                _ => Ty::list(Ty::named(Base::Int, true), true),
            };
            (ParamMeaning::Opaque, lt)
        } else {
            (ParamMeaning::Opaque, Ty::named(Base::Int, true))
        };
        let ty = match t.draw(3) {
            0 => base_ty.clone(),
            1 => base_ty.with_nullable(false),
            _ => {
                if matches!(meaning, ParamMeaning::MinProp(_)) {
                    base_ty.with_nullable(false)
                } else {
                    base_ty.with_nullable(true)
                }
            }
        };
        let default = if t.chance(1, 2) { Some(gen_fv(&ty, t)) } else { None };
        out.push(ParamDef { name, ty, default, meaning });
    }
    out
}

pub fn gen_dataset(mut schema: SchemaAst, t: &mut Tape) -> World {
    let objs: Vec<usize> =
        (0..schema.types.len()).filter(|k| !schema.types[*k].is_interface).collect();
    let nv = 1 + t.draw(12) as usize;
    let mut vertices: Vec<VertexData> = vec![];
    for _ in 0..nv {
        let ty = objs[t.draw(objs.len() as u32) as usize];
        let mut props = BTreeMap::new();
        for p in &schema.types[ty].props {
            props.insert(p.name.clone(), gen_fv(&p.ty, t));
        }
        vertices.push(VertexData { ty, props, adj: BTreeMap::new() });
    }
    let max_degree = 1 + t.draw(3);
    for v in 0..nv {
        let ty = vertices[v].ty;
        for e in schema.types[ty].edges.clone() {
            let cands: Vec<u32> = (0..nv as u32)
                .filter(|u| schema.is_subtype(vertices[*u as usize].ty, e.target))
                .collect();
            let n = if cands.is_empty() {
                0
            } else {
                match e.card {
                    Card::ZeroOrOne => t.draw(2),
                    Card::One => 1,
                    Card::Many => t.draw(max_degree + 1),
                    Card::ManyNonNull => t.draw(max_degree + 1),
                }
            };
            let mut adj = vec![];
            for _ in 0..n {
                adj.push(cands[t.draw(cands.len() as u32) as usize]);
            }
            vertices[v].adj.insert(e.name.clone(), adj);
        }
    }
    for ep in schema.entry.iter_mut() {
        let cands: Vec<u32> = (0..nv as u32)
            .filter(|u| {
                let vt = vertices[*u as usize].ty;
                vt == ep.target || schema.types[vt].implements.contains(&ep.target)
            })
            .collect();
        // keep each candidate with probability 3/4, in id order; sometimes reversed
        let mut vs: Vec<u32> = cands.into_iter().filter(|_| !t.chance(1, 4)).collect();
        if t.chance(1, 4) {
            vs.reverse();
        }
        if !ep.card.to_many() {
            // a singular entry point yields at most one vertex (schema-conforming dataset)
            vs.truncate(1);
        }
        ep.vertices = vs;
    }
    World { schema, vertices }
}
