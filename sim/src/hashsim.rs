//! C14: compilation and execution are deterministic across process-level hash seeds (N7) and
//! across repetitions. The hash seed sits behind an LD_PRELOAD `getrandom` seam
//! (hashsim/getrandom_shim.c); each worker process is a pure function of (VERIF_HASH_SEED,
//! workload range) and prints one digest line per workload; the driver diffs the logs.

use std::collections::{BTreeMap, BTreeSet, HashMap};
use std::io::Write;
use std::path::PathBuf;
use std::process::Command;
use std::time::Instant;

use trustfall_core::frontend;
use trustfall_core::schema::Schema;

use crate::adapter::SchedCfg;
use crate::driver::verif_dir;
use crate::qast::{EdgeKind, Operand, QFilter, QItem, QNode, QProp, QueryAst, QueryCfg, gen_args, gen_query};
use crate::runner::{BuildError, Ending, ExecOpts, exec, finish_workload, install_panic_hook};
use crate::tape::{Digest, Tapes, fnv1a, mix};
use crate::val::{Base, Op, Ty};
use crate::world::{World, gen_world};

fn shim_path() -> PathBuf {
    verif_dir().join("target").join("getrandom_shim.so")
}

fn d(s: &str) -> u64 {
    fnv1a(s.as_bytes())
}

/// What one workload looks like to an observer: digests of (compiled query or error, row
/// sequence, complete adapter event log).
fn observe_query(world: &std::rc::Rc<World>, schema_text: &str, q: &QueryAst, args: &BTreeMap<String, trustfall_core::ir::FieldValue>) -> (String, u64, u64, u64) {
    let schema = match Schema::parse(schema_text) {
        Ok(s) => s,
        Err(e) => return ("schema_error".into(), d(&format!("{e:?}")), 0, 0),
    };
    match finish_workload(world.clone(), schema_text.to_string(), schema, q.clone(), args.clone()) {
        Ok(w) => {
            let compile = d(&format!("{:?}", w.compiled));
            let mut o = ExecOpts::new(SchedCfg::lazy());
            o.event_cap = 3_000_000;
            let e = exec(&w, o, crate::tape::Tape::replaying(vec![]));
            let mut rd = Digest::new();
            for r in &e.raw_rows {
                rd.add_str(&format!("{r:?}"));
            }
            let ending = match &e.ending {
                Ending::Completed => "completed".to_string(),
                Ending::Panic(i) => format!("panic:{}", i.fingerprint()),
                Ending::ArgsRejected(m) => format!("args_rejected:{m}"),
                other => format!("{other:?}"),
            };
            rd.add_str(&ending);
            ("valid".into(), compile, rd.0, e.digest)
        }
        Err(BuildError::Discard(crate::runner::Discard::FrontendRejected(e), _)) => {
            ("frontend_error".into(), d(&e), 0, 0)
        }
        Err(BuildError::FrontendPanic(info, _, _)) => ("frontend_panic".into(), d(&info.fingerprint()), 0, 0),
        Err(_) => ("other".into(), 0, 0, 0),
    }
}

/// Break a valid query in ways that make the frontend report (several) errors.
fn break_query(q: &mut QueryAst, how: u32) {
    fn outputs_mut<'a>(n: &'a mut QNode, out: &mut Vec<&'a mut Option<String>>) {
        for it in n.items.iter_mut() {
            match it {
                QItem::Prop(p) => {
                    for o in p.outputs.iter_mut() {
                        out.push(o);
                    }
                }
                QItem::Edge(e) => {
                    if let EdgeKind::Fold(fs) = &mut e.kind {
                        for o in fs.count_outputs.iter_mut() {
                            out.push(o);
                        }
                    }
                    outputs_mut(&mut e.node, out);
                }
            }
        }
    }
    fn first_props<'a>(n: &'a mut QNode, out: &mut Vec<&'a mut QProp>) {
        for it in n.items.iter_mut() {
            match it {
                QItem::Prop(p) => out.push(p),
                QItem::Edge(e) => first_props(&mut e.node, out),
            }
        }
    }
    match how % 4 {
        0 => {
            // duplicate output names (two different names, each used by several outputs)
            let mut outs = vec![];
            outputs_mut(&mut q.root, &mut outs);
            for (i, o) in outs.into_iter().enumerate() {
                *o = Some(if i % 2 == 0 { "dup_a".to_string() } else { "dup_b".to_string() });
            }
            // make sure there are at least two outputs
            q.root.items.push(QItem::Prop(QProp {
                name: "__typename".into(),
                alias: None,
                ty: Ty::named(Base::Str, false),
                outputs: vec![Some("dup_a".into()), Some("dup_b".into()), Some("dup_a".into())],
                tags: vec![],
                filters: vec![],
            }));
        }
        1 => {
            // undefined tags and unused tags at several places
            let mut props = vec![];
            first_props(&mut q.root, &mut props);
            for (i, p) in props.into_iter().enumerate() {
                p.filters.push(QFilter { op: Op::Eq, operand: Operand::Tag(format!("undefined_{}", i % 3)) });
                p.tags.push(Some(format!("unused_{i}")));
            }
        }
        2 => {
            // type errors: string operators and list operators on every property
            let mut props = vec![];
            first_props(&mut q.root, &mut props);
            for (i, p) in props.into_iter().enumerate() {
                let op = if i % 2 == 0 { Op::HasPrefix } else { Op::Contains };
                p.filters.push(QFilter { op, operand: Operand::Var(format!("bad_{i}")) });
                if !p.ty.nullable() {
                    p.filters.push(QFilter { op: Op::IsNull, operand: Operand::None });
                }
            }
        }
        _ => {
            // a mixture
            break_query(q, 0);
            break_query(q, 1);
            break_query(q, 2);
        }
    }
}

/// Type headers of a rendered schema: (line index, "interface" | "type", name).
fn type_headers(lines: &[&str]) -> Vec<(usize, bool, String)> {
    let mut out = vec![];
    for (i, l) in lines.iter().enumerate() {
        for (kw, is_iface) in [("interface ", true), ("type ", false)] {
            if let Some(rest) = l.strip_prefix(kw) {
                let name: String = rest.chars().take_while(|c| c.is_ascii_alphanumeric() || *c == '_').collect();
                if !name.is_empty() && name != "RootQ" {
                    out.push((i, is_iface, name));
                }
            }
        }
    }
    out
}

fn break_schema(text: &str, how: u32) -> String {
    // Every documented schema rule is broken by some mode, always at several places at once, so
    // that *which* errors are reported, and in which order, is exercised.
    let lines: Vec<&str> = text.lines().collect();
    let heads = type_headers(&lines);
    let ifaces: Vec<String> = heads.iter().filter(|h| h.1).map(|h| h.2.clone()).collect();
    match how % 7 {
        3 => {
            // implementation cycles: the interfaces implement each other in a ring (or half of
            // them do), every object type implements all of them -> several unresolved types,
            // asymmetrically
            let mut out = String::new();
            for (i, l) in lines.iter().enumerate() {
                if let Some(h) = heads.iter().find(|h| h.0 == i) {
                    let kw = if h.1 { "interface" } else { "type" };
                    let imp: Vec<String> = if h.1 {
                        if ifaces.len() <= 1 {
                            ifaces.clone() // self cycle
                        } else {
                            let me = ifaces.iter().position(|x| x == &h.2).unwrap_or(0);
                            let mut v = vec![ifaces[(me + 1) % ifaces.len()].clone()];
                            if how % 2 == 1 && ifaces.len() > 2 {
                                v.push(ifaces[(me + 2) % ifaces.len()].clone());
                            }
                            v
                        }
                    } else {
                        ifaces.clone()
                    };
                    if imp.is_empty() {
                        out.push_str(&format!("{kw} {} {{\n", h.2));
                    } else {
                        out.push_str(&format!("{kw} {} implements {} {{\n", h.2, imp.join(" & ")));
                    }
                } else {
                    out.push_str(l);
                    out.push('\n');
                }
            }
            return out;
        }
        4 => {
            // inherited fields widened / retyped in several implementers; edges into the root type
            let mut out = String::new();
            let mut k = 0;
            for l in &lines {
                let t = l.trim_start();
                let is_field = l.starts_with("    ") && t.contains(':') && !t.starts_with("query:") && !t.starts_with("Ep");
                if is_field {
                    k += 1;
                    if k % 2 == 0 {
                        let widened = l.replace("!", "").replace(": Int", ": String").replace(": [Int", ": [String");
                        out.push_str(&widened);
                        out.push('\n');
                        continue;
                    }
                }
                out.push_str(l);
                out.push('\n');
                if heads.iter().any(|h| lines[h.0] == *l) {
                    out.push_str("    toRoot: RootQ\n");
                }
            }
            return out;
        }
        5 => {
            // reserved names, properties with parameters, defaults that do not fit, in every type
            let mut out = String::new();
            for l in &lines {
                out.push_str(l);
                out.push('\n');
                if heads.iter().any(|h| lines[h.0] == *l) {
                    out.push_str("    __reserved: Int\n    withParam(x: Int): Int\n");
                    if let Some(first) = ifaces.first() {
                        out.push_str(&format!("    badDefault(x: Int = \"a\", y: [Int!] = [null]): {first}\n"));
                    }
                }
            }
            return out;
        }
        6 => {
            // interfaces that do not exist, the same field defined twice, duplicate type
            let mut out = String::new();
            for (i, l) in lines.iter().enumerate() {
                if let Some(h) = heads.iter().find(|h| h.0 == i) {
                    let kw = if h.1 { "interface" } else { "type" };
                    out.push_str(&format!("{kw} {} implements Missing{} & Missing{} {{\n", h.2, i % 3, (i + 1) % 3));
                    out.push_str("    dup: Int\n    dup: String\n");
                } else {
                    out.push_str(l);
                    out.push('\n');
                }
            }
            if let Some(h) = heads.first() {
                out.push_str(&format!("\ntype {} {{\n    again: Int\n}}\n", h.2));
            }
            return out;
        }
        _ => {}
    }
    // Remove inherited fields / implements clauses / add unknown types: several errors at once.
    let mut out = String::new();
    let mut k = 0u32;
    for line in text.lines() {
        let t = line.trim_start();
        let is_field = line.starts_with("    ") && t.contains(':') && !t.starts_with("query:");
        if is_field {
            k += 1;
            match how % 3 {
                0 if k % 3 == 0 => continue, // drop every third field definition
                1 if k % 4 == 0 => {
                    out.push_str(&format!("{}\n", line.replace(": ", ": Unknown").replace("UnknownInt", "Int")));
                    continue;
                }
                _ => {}
            }
        }
        if how % 3 == 2 && t.contains(" implements ") {
            // keep only the first implemented interface: missing transitive implementations
            if let Some(pos) = line.find(" & ") {
                let brace = line.rfind('{').unwrap_or(line.len());
                out.push_str(&format!("{} {}\n", &line[..pos], &line[brace..]));
                continue;
            }
        }
        out.push_str(line);
        out.push('\n');
    }
    out
}

fn hashmap_probe() -> String {
    // The iteration order of a std HashMap: a function of the process hash seed only.
    let mut m: HashMap<u32, u32> = HashMap::new();
    for i in 0..64 {
        m.insert(i, i);
    }
    m.keys().take(12).map(|k| k.to_string()).collect::<Vec<_>>().join(",")
}

pub fn workload_line(seed: u64, i: u64) -> String {
    let mut tapes = Tapes::generating(mix(seed, 0xC14), i);
    let world = std::rc::Rc::new(gen_world(&mut tapes.world));
    let schema_text = world.schema.render();
    let cfg = QueryCfg::draw(&mut tapes.query, false);
    let mut q = gen_query(&world, &mut tapes.query, cfg);
    let args = gen_args(&q, &world, &mut tapes.args);
    let variant = i % 5;
    let (kind, a, b, c) = match variant {
        0 | 1 | 2 => observe_query(&world, &schema_text, &q, &args),
        3 => {
            break_query(&mut q, (i / 5) as u32);
            observe_query(&world, &schema_text, &q, &args)
        }
        _ => {
            let broken = break_schema(&schema_text, (i / 5) as u32);
            match std::panic::catch_unwind(|| Schema::parse(&broken)) {
                Ok(Ok(s)) => {
                    // accepted anyway: observe the subtype listing, which walks the HashMaps
                    let mut names = vec![];
                    for t in &world.schema.types {
                        if let Some(it) = s.subtypes(&t.name) {
                            names.push(it.collect::<Vec<_>>().join("|"));
                        }
                    }
                    ("schema_ok".to_string(), d(&names.join(";")), 0, 0)
                }
                Ok(Err(e)) => ("schema_error".to_string(), d(&format!("{e:?}|{e}")), 0, 0),
                Err(_) => ("schema_panic".to_string(), 0, 0, 0),
            }
        }
    };
    format!("{i} {kind} {a:016x} {b:016x} {c:016x}")
}

/// Worker: prints one line per workload, plus a self-check line for the seam.
pub fn emit(seed: u64, from: u64, to: u64) -> i32 {
    install_panic_hook();
    let stdout = std::io::stdout();
    let mut out = stdout.lock();
    writeln!(out, "PROBE {}", hashmap_probe()).ok();
    for i in from..to {
        let l1 = workload_line(seed, i);
        // in-process repetition: every Schema / HashMap is built afresh, with fresh hasher keys
        let l2 = workload_line(seed, i);
        if l1 != l2 {
            writeln!(out, "INPROC-MISMATCH {l1} != {l2}").ok();
        }
        writeln!(out, "{l1}").ok();
    }
    0
}

fn spawn_worker(seed: u64, hash_seed: u64, from: u64, to: u64) -> std::io::Result<std::process::Child> {
    let exe = std::env::current_exe()?;
    Command::new(exe)
        .args(["hashsim-emit", &seed.to_string(), &from.to_string(), &to.to_string()])
        .env("LD_PRELOAD", shim_path())
        .env("VERIF_HASH_SEED", hash_seed.to_string())
        .stdout(std::process::Stdio::piped())
        .stderr(std::process::Stdio::null())
        .spawn()
}

fn run_workers(seed: u64, hash_seeds: &[u64], from: u64, to: u64) -> Result<Vec<Vec<String>>, String> {
    let mut children = vec![];
    for hs in hash_seeds {
        children.push(spawn_worker(seed, *hs, from, to).map_err(|e| format!("spawn: {e}"))?);
    }
    let mut outs = vec![];
    for c in children {
        let o = c.wait_with_output().map_err(|e| format!("wait: {e}"))?;
        if !o.status.success() {
            return Err(format!("worker exited with {}", o.status));
        }
        outs.push(String::from_utf8_lossy(&o.stdout).lines().map(|s| s.to_string()).collect());
    }
    Ok(outs)
}

pub fn check(tier: &str, seed: u64) -> i32 {
    let t0 = Instant::now();
    if !shim_path().exists() {
        eprintln!("harness error: {} missing (run ./setup.sh)", shim_path().display());
        return 2;
    }
    let quick = tier != "thorough";
    let (k, n, chunk) = if quick { (6u64, 60_000u64, 2500u64) } else { (16u64, 400_000u64, 5000u64) };
    println!("VERIF_SEED={seed} property=C14 tier={tier} hash_seeds={k} workloads={n}");
    let hash_seeds: Vec<u64> = (0..k).map(|i| mix(seed, 1000 + i) % 1_000_000_007).collect();

    // Seam self-check: same hash seed => same HashMap order; different seeds => different order.
    let probe = run_workers(seed, &[hash_seeds[0], hash_seeds[0], hash_seeds[1]], 0, 0);
    match probe {
        Ok(p) => {
            let (a, b, c) = (&p[0][0], &p[1][0], &p[2][0]);
            if a != b || a == c {
                eprintln!("harness error: getrandom seam does not control HashMap order ({a} / {b} / {c})");
                return 2;
            }
        }
        Err(e) => {
            eprintln!("harness error: {e}");
            return 2;
        }
    }

    let max_par = std::thread::available_parallelism().map(|x| x.get()).unwrap_or(4) as u64;
    let chunks: Vec<(u64, u64)> = (0..n).step_by(chunk as usize).map(|f| (f, (f + chunk).min(n))).collect();
    let mut divergences: Vec<(u64, u64, u64, String, String)> = vec![];
    let mut inproc: Vec<String> = vec![];
    let mut kinds: BTreeMap<String, u64> = BTreeMap::new();
    let mut distinct: BTreeSet<String> = BTreeSet::new();
    let mut samples = vec![];
    let mut probes_seen: BTreeSet<String> = BTreeSet::new();
    let group = (max_par / k).max(1) as usize;
    for batch in chunks.chunks(group) {
        // all hash seeds of `group` chunks run concurrently
        let handles: Vec<_> = batch
            .iter()
            .map(|(f, t)| {
                let hs = hash_seeds.clone();
                let (f, t) = (*f, *t);
                std::thread::spawn(move || (f, run_workers(seed, &hs, f, t)))
            })
            .collect();
        for h in handles {
            let (from, res) = h.join().unwrap();
            let outs = match res {
                Ok(o) => o,
                Err(e) => {
                    eprintln!("harness error: {e}");
                    return 2;
                }
            };
            for (wi, o) in outs.iter().enumerate() {
                for l in o {
                    if let Some(p) = l.strip_prefix("PROBE ") {
                        probes_seen.insert(format!("{}:{p}", hash_seeds[wi]));
                    }
                    if l.starts_with("INPROC-MISMATCH") {
                        inproc.push(l.clone());
                    }
                }
            }
            let base: Vec<&String> = outs[0].iter().filter(|l| !l.starts_with("PROBE") && !l.starts_with("INPROC")).collect();
            for l in &base {
                let mut parts = l.split(' ');
                let _ = parts.next();
                if let Some(kind) = parts.next() {
                    *kinds.entry(kind.to_string()).or_default() += 1;
                }
                distinct.insert(l.splitn(2, ' ').nth(1).unwrap_or("").to_string());
                if samples.len() < 3 && l.contains(" valid ") {
                    samples.push(serde_json::json!({"workload": l, "format": "index kind digest(compiled query | error) digest(row sequence) digest(adapter event log)"}));
                }
            }
            for (wi, o) in outs.iter().enumerate().skip(1) {
                let other: Vec<&String> = o.iter().filter(|l| !l.starts_with("PROBE") && !l.starts_with("INPROC")).collect();
                for (a, b) in base.iter().zip(other.iter()) {
                    if a != b {
                        let idx: u64 = a.split(' ').next().and_then(|x| x.parse().ok()).unwrap_or(from);
                        divergences.push((idx, hash_seeds[0], hash_seeds[wi], (*a).clone(), (*b).clone()));
                        break;
                    }
                }
                if base.len() != other.len() {
                    divergences.push((from, hash_seeds[0], hash_seeds[wi], format!("{} lines", base.len()), format!("{} lines", other.len())));
                }
            }
        }
    }
    let wall_s = t0.elapsed().as_secs_f64();
    let mut code = 0;
    let replay_dir = verif_dir().join("replays");
    let _ = std::fs::create_dir_all(&replay_dir);
    if let Some((idx, hs_a, hs_b, la, lb)) = divergences.first() {
        let path = replay_dir.join(format!("C14-{seed}-{idx}.json"));
        let j = serde_json::json!({
            "version": 1, "property": "C14", "engine": "hashsim", "verif_seed": seed, "workload": idx,
            "hash_seeds": [hs_a, hs_b], "lines": [la, lb],
            "violation": {"class": "observable-behaviour-depends-on-the-process-hash-seed", "detail": format!("workload {idx}: `{la}` under VERIF_HASH_SEED={hs_a} but `{lb}` under VERIF_HASH_SEED={hs_b}")},
        });
        std::fs::write(&path, serde_json::to_string_pretty(&j).unwrap()).ok();
        println!("VIOLATION property=C14 replay={}", path.display());
        println!("  workload {idx}: `{la}` (hash seed {hs_a}) vs `{lb}` (hash seed {hs_b})");
        code = 1;
    }
    if let Some(l) = inproc.first() {
        let path = replay_dir.join(format!("C14-{seed}-inproc.json"));
        let j = serde_json::json!({
            "version": 1, "property": "C14", "engine": "hashsim", "verif_seed": seed,
            "violation": {"class": "observable-behaviour-differs-between-two-repetitions-in-one-process", "detail": l},
        });
        std::fs::write(&path, serde_json::to_string_pretty(&j).unwrap()).ok();
        println!("VIOLATION property=C14 replay={}", path.display());
        println!("  {l}");
        code = 1;
    }
    let evidence = serde_json::json!({
        "property_id": "C14",
        "tier": if quick { "quick" } else { "thorough" },
        "seed": seed,
        "level": "exploration",
        "coverage": {
            "evaluations": n * k * 2,
            "distinct_nontrivial": distinct.len(),
            "rule": "each workload = (generated schema + dataset, generated query, arguments) from tapes seeded by (VERIF_SEED, index); 3 in 5 valid queries executed lazily against the deterministic simulated adapter, 1 in 5 deliberately broken queries (duplicate output names, undefined/unused tags, several type errors), 1 in 5 deliberately broken schemas; every workload is observed in K separate processes that differ only in the hash seed behind the getrandom seam, and twice inside each process with freshly built schemas; observation = digests of (Debug of compiled query or error, row sequence, complete adapter event log); distinct = distinct observation tuples, non-trivial = all (every tuple is a full compile, most an execution)",
            "samples": samples,
            "hash_seeds": hash_seeds,
            "hashmap_orders_observed": probes_seen.len(),
            "workloads": n,
            "processes": k * chunks.len() as u64,
            "workload_kinds": kinds,
            "cross_process_divergences": divergences.len(),
            "in_process_divergences": inproc.len(),
            "fault_kinds_fired": {"F9_hash_seed_changed_between_processes": k, "hashmap_iteration_orders_distinct": probes_seen.iter().map(|p| p.split(':').nth(1).unwrap_or("").to_string()).collect::<BTreeSet<_>>().len()},
            "runs_per_hour": if wall_s > 0.0 { ((n * k * 2) as f64 / wall_s * 3600.0) as u64 } else { 0 },
            "components": {"real_code": ["Schema::parse", "frontend::parse", "interpret_ir", "std::collections::HashMap/HashSet with real SipHash, keys from the seam"], "stubs": ["getrandom(2) (LD_PRELOAD shim)", "data source (SimAdapter, lazy schedule)"]},
            "exhaustive": false,
        },
        "assumptions": [
            "the hash seed is the only per-process nondeterminism trustfall_core can observe (no clocks, threads, I/O); ASLR is left on and uncontrolled",
            "required_properties() order is excluded from the observation: it is documented as unordered",
        ],
        "wall_s": wall_s,
        "violations": divergences.len() + inproc.len(),
    });
    let ev_dir = verif_dir().join("evidence");
    let _ = std::fs::create_dir_all(&ev_dir);
    std::fs::write(ev_dir.join("C14.json"), serde_json::to_string_pretty(&evidence).unwrap()).ok();
    println!(
        "workloads={n} hash_seeds={k} distinct_observations={} divergences={} inproc={} wall_s={wall_s:.1}",
        distinct.len(),
        divergences.len(),
        inproc.len()
    );
    code
}

pub fn replay(path: &str) -> i32 {
    let Ok(text) = std::fs::read_to_string(path) else {
        eprintln!("harness error: cannot read {path}");
        return 2;
    };
    let Ok(j) = serde_json::from_str::<serde_json::Value>(&text) else {
        eprintln!("harness error: cannot parse {path}");
        return 2;
    };
    let seed = j["verif_seed"].as_u64().unwrap_or(0);
    let Some(idx) = j["workload"].as_u64() else {
        println!("in-process divergence: re-run `./check C14 quick` with VERIF_SEED={seed}");
        return 0;
    };
    let hs: Vec<u64> = j["hash_seeds"].as_array().map(|a| a.iter().filter_map(|x| x.as_u64()).collect()).unwrap_or_default();
    if hs.len() != 2 {
        eprintln!("harness error: replay file without two hash seeds");
        return 2;
    }
    match run_workers(seed, &hs, idx, idx + 1) {
        Ok(outs) => {
            let a: Vec<&String> = outs[0].iter().filter(|l| !l.starts_with("PROBE")).collect();
            let b: Vec<&String> = outs[1].iter().filter(|l| !l.starts_with("PROBE")).collect();
            println!("VERIF_HASH_SEED={}: {:?}", hs[0], a);
            println!("VERIF_HASH_SEED={}: {:?}", hs[1], b);
            if a != b {
                println!("VIOLATION property=C14 replay={path}");
                1
            } else {
                println!("not reproduced");
                0
            }
        }
        Err(e) => {
            eprintln!("harness error: {e}");
            2
        }
    }
}

// silence unused import warnings for items used only in some cfgs
#[allow(unused_imports)]
use frontend as _frontend;
