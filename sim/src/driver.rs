//! CLI, parallel batches, known findings, minimiser, replay files, evidence.

use std::collections::{BTreeMap, BTreeSet};
use std::path::{Path, PathBuf};
use std::sync::Mutex;
use std::sync::atomic::{AtomicBool, AtomicUsize, Ordering};
use std::time::Instant;

use crate::adapter::Fires;
use crate::checks::{CaseResult, HarnessError, Violation, run_case};
use crate::runner::install_panic_hook;
use crate::tape::{TAPE_NAMES, Tapes};

pub const DEFAULT_SEED: u64 = 20260921;

pub fn verif_dir() -> PathBuf {
    std::env::var("VERIF_DIR").map(PathBuf::from).unwrap_or_else(|_| PathBuf::from("/verif"))
}

#[derive(Clone, Debug)]
pub struct Known {
    pub property: String,
    pub pattern: String,
    pub what: String,
    pub status: String,
    pub shim: Option<String>,
}

pub fn load_known() -> Vec<Known> {
    let p = verif_dir().join("known_findings.json");
    let Ok(text) = std::fs::read_to_string(&p) else {
        return vec![];
    };
    let Ok(v) = serde_json::from_str::<serde_json::Value>(&text) else {
        eprintln!("harness error: cannot parse {}", p.display());
        std::process::exit(2);
    };
    let mut out = vec![];
    for e in v.get("findings").and_then(|x| x.as_array()).cloned().unwrap_or_default() {
        out.push(Known {
            property: e["property"].as_str().unwrap_or("").to_string(),
            pattern: e["match"].as_str().unwrap_or("").to_string(),
            what: e["what"].as_str().unwrap_or("").to_string(),
            status: e["status"].as_str().unwrap_or("").to_string(),
            shim: e["shim"].as_str().map(|x| x.to_string()),
        });
    }
    out
}

/// Attribute a violation to a recorded known finding, or to none.
///
/// Panics are identified by (source file, message template). Semantic differences are
/// identified by a *shim*: the case is re-run with the simulated adapter avoiding the one call
/// site the recorded defect lives at; only if the violation class then disappears is it
/// attributed to that finding, so a different violation of the same property is still reported.
pub fn match_known<'a>(
    known: &'a [Known],
    prop: &str,
    tapes: &[Vec<u32>; 5],
    v: &Violation,
) -> Option<&'a Known> {
    for k in known {
        if k.status != "known" || k.property != v.property || k.pattern.is_empty() {
            continue;
        }
        if !v.fingerprint.contains(&k.pattern) {
            continue;
        }
        match &k.shim {
            None => return Some(k),
            Some(shim) => {
                crate::adapter::SHIMS.with(|s| s.borrow_mut().insert(shim.clone()));
                let res = replay_case(prop, tapes);
                crate::adapter::SHIMS.with(|s| s.borrow_mut().clear());
                if let Ok(r) = res {
                    if !r.violations.iter().any(|x| x.class == v.class) {
                        return Some(k);
                    }
                }
            }
        }
    }
    None
}

fn seed_from_env() -> u64 {
    match std::env::var("VERIF_SEED") {
        Ok(s) => s.trim().parse::<u64>().unwrap_or_else(|_| {
            // any string is accepted: hash it
            crate::tape::fnv1a(s.as_bytes())
        }),
        Err(_) => DEFAULT_SEED,
    }
}

fn threads() -> usize {
    std::env::var("VERIF_THREADS")
        .ok()
        .and_then(|s| s.parse().ok())
        .unwrap_or_else(|| std::thread::available_parallelism().map(|n| n.get()).unwrap_or(4))
        .max(1)
}

/// Streaming aggregate of a batch: constant memory per run (violating runs keep their tapes).
#[derive(Default)]
pub struct Agg {
    pub runs: u64,
    pub harness_errors: Vec<(u64, String)>,
    pub discarded: BTreeMap<String, u64>,
    pub evaluated: u64,
    pub nontrivial: Vec<u64>,
    pub fires: Fires,
    pub probes: BTreeMap<String, u64>,
    pub features: BTreeMap<&'static str, u64>,
    pub events: u64,
    pub execs: u64,
    pub inconclusive: BTreeMap<String, u64>,
    pub samples: Vec<(u64, bool, serde_json::Value)>,
    pub with_rows: u64,
    pub undefined: u64,
    pub nonforest: u64,
    pub violations: Vec<(u64, Violation, [Vec<u32>; 5])>,
    pub lines: Vec<(u64, String)>,
}

impl Agg {
    fn add_run(&mut self, prop: &str, index: u64, result: Result<CaseResult, String>, tapes: &Tapes, keep_lines: bool) {
        self.runs += 1;
        match result {
            Err(m) => {
                if keep_lines {
                    self.lines.push((index, format!("{index} HARNESS {m}")));
                }
                self.harness_errors.push((index, m));
            }
            Ok(r) => {
                let st = &r.stats;
                if keep_lines {
                    self.lines.push((
                        index,
                        format!(
                            "{} {:016x} v={} d={:?} ex={} ev={}",
                            index,
                            st.case_digest,
                            r.violations.iter().map(|v| v.class.clone()).collect::<Vec<_>>().join(","),
                            st.discarded,
                            st.execs,
                            // C20: the amount of work depends on SchemaAdapter's hash order
                            if prop == "C20" { 0 } else { st.events }
                        ),
                    ));
                }
                if let Some(d) = &st.discarded {
                    let key = d.split(':').next().unwrap_or(d).to_string();
                    *self.discarded.entry(key).or_default() += 1;
                    return;
                }
                self.evaluated += 1;
                if st.nontrivial {
                    self.nontrivial.push(st.case_digest);
                }
                self.fires.add(&st.fires);
                for p in &st.probes {
                    *self.probes.entry(p.clone()).or_default() += 1;
                }
                for f in &st.features {
                    *self.features.entry(f).or_default() += 1;
                }
                self.events += st.events;
                self.execs += st.execs as u64;
                for i in &st.inconclusive {
                    let key = i.split('(').next().unwrap_or(i).to_string();
                    *self.inconclusive.entry(key).or_default() += 1;
                }
                if st.rows > 0 {
                    self.with_rows += 1;
                }
                if st.model_undefined {
                    self.undefined += 1;
                }
                if st.model_nonforest {
                    self.nonforest += 1;
                }
                if let Some(sv) = &st.sample {
                    // keep the three lowest-index non-trivial samples (and one trivial fallback)
                    let nt = st.nontrivial;
                    let have_nt = self.samples.iter().filter(|x| x.1).count();
                    if (nt && have_nt < 3) || (!nt && self.samples.is_empty()) {
                        self.samples.push((index, nt, sv.clone()));
                    }
                }
                if !r.violations.is_empty() {
                    let rec = tapes.recorded();
                    for v in r.violations {
                        self.violations.push((index, v, rec.clone()));
                    }
                }
            }
        }
    }

    fn merge(&mut self, o: Agg) {
        self.runs += o.runs;
        self.harness_errors.extend(o.harness_errors);
        for (k, v) in o.discarded {
            *self.discarded.entry(k).or_default() += v;
        }
        self.evaluated += o.evaluated;
        self.nontrivial.extend(o.nontrivial);
        self.fires.add(&o.fires);
        for (k, v) in o.probes {
            *self.probes.entry(k).or_default() += v;
        }
        for (k, v) in o.features {
            *self.features.entry(k).or_default() += v;
        }
        self.events += o.events;
        self.execs += o.execs;
        for (k, v) in o.inconclusive {
            *self.inconclusive.entry(k).or_default() += v;
        }
        self.samples.extend(o.samples);
        self.with_rows += o.with_rows;
        self.undefined += o.undefined;
        self.nonforest += o.nonforest;
        self.violations.extend(o.violations);
        self.lines.extend(o.lines);
    }
}

/// Runs are handed out in blocks of consecutive indices; when the wall cap is hit no new block is
/// started, so what was explored is always the contiguous prefix [0, runs) for some `runs`: a
/// deterministic function of (seed, number of runs completed), for any worker count.
pub fn run_batch(prop: &str, seed: u64, runs: u64, wall_cap_s: f64, keep_lines: bool) -> (Agg, bool) {
    let n_threads = threads();
    const BLOCK: u64 = 500;
    let next = AtomicUsize::new(0);
    let out: Mutex<Vec<Agg>> = Mutex::new(Vec::new());
    let start = Instant::now();
    let truncated = AtomicBool::new(false);
    std::thread::scope(|s| {
        for _ in 0..n_threads {
            s.spawn(|| {
                let mut agg = Agg::default();
                loop {
                    if start.elapsed().as_secs_f64() > wall_cap_s {
                        truncated.store(true, Ordering::Relaxed);
                        break;
                    }
                    let b = next.fetch_add(1, Ordering::Relaxed) as u64;
                    let from = b * BLOCK;
                    if from >= runs {
                        break;
                    }
                    for i in from..(from + BLOCK).min(runs) {
                        let mut tapes = Tapes::generating(seed, i);
                        let result = match run_case(prop, &mut tapes) {
                            Ok(r) => Ok(r),
                            Err(HarnessError(m)) => Err(m),
                        };
                        agg.add_run(prop, i, result, &tapes, keep_lines);
                    }
                }
                out.lock().unwrap().push(agg);
            });
        }
    });
    let mut total = Agg::default();
    for a in out.into_inner().unwrap() {
        total.merge(a);
    }
    total.nontrivial.sort_unstable();
    total.nontrivial.dedup();
    total.samples.sort_by_key(|x| x.0);
    total.violations.sort_by_key(|x| x.0);
    total.harness_errors.sort_by_key(|x| x.0);
    total.lines.sort_by_key(|x| x.0);
    (total, truncated.load(Ordering::Relaxed))
}

fn replay_case(prop: &str, tapes: &[Vec<u32>; 5]) -> Result<CaseResult, HarnessError> {
    let mut t = Tapes::replaying(tapes);
    run_case(prop, &mut t)
}

fn fails_same(prop: &str, tapes: &[Vec<u32>; 5], class: &str, known: &[Known]) -> bool {
    match replay_case(prop, tapes) {
        Ok(r) => r
            .violations
            .iter()
            .any(|v| v.class == class && match_known(known, prop, tapes, v).is_none()),
        Err(_) => false,
    }
}

/// Shrink in the order sched -> fault -> query -> args -> world; a candidate is kept only if the
/// same violation class persists.
pub fn shrink(
    prop: &str,
    tapes: [Vec<u32>; 5],
    class: &str,
    known: &[Known],
    budget: usize,
) -> ([Vec<u32>; 5], usize) {
    let mut best = tapes;
    let mut evals = 0usize;
    let order = [3usize, 4, 1, 2, 0];
    let mut progress = true;
    // wall-clock guard: `budget` counts evaluations, but one evaluation can be slow
    let started = Instant::now();
    let wall_limit = if budget > 2000 { 180.0 } else { 45.0 };
    let mut budget = budget;
    while progress && evals < budget {
        if started.elapsed().as_secs_f64() > wall_limit {
            budget = evals;
        }
        progress = false;
        for &ti in &order {
            // 1. drop the tail (replay reads 0 past the end: "the simplest choice")
            let mut cut = best[ti].len() / 2;
            while cut > 0 && evals < budget && started.elapsed().as_secs_f64() <= wall_limit {
                let keep = best[ti].len().saturating_sub(cut);
                let mut cand = best.clone();
                cand[ti].truncate(keep);
                evals += 1;
                if cand[ti].len() < best[ti].len() && fails_same(prop, &cand, class, known) {
                    best = cand;
                    progress = true;
                    cut = best[ti].len() / 2;
                } else {
                    cut /= 2;
                }
            }
            // 2. delete blocks
            for block in [8usize, 4, 2, 1] {
                let mut i = 0;
                while i + block <= best[ti].len() && evals < budget && started.elapsed().as_secs_f64() <= wall_limit {
                    let mut cand = best.clone();
                    cand[ti].drain(i..i + block);
                    evals += 1;
                    if fails_same(prop, &cand, class, known) {
                        best = cand;
                        progress = true;
                    } else {
                        i += block;
                    }
                }
            }
            // 3. zero, then halve, individual values
            let mut i = 0;
            while i < best[ti].len() && evals < budget && started.elapsed().as_secs_f64() <= wall_limit {
                if best[ti][i] != 0 {
                    let mut cand = best.clone();
                    cand[ti][i] = 0;
                    evals += 1;
                    if fails_same(prop, &cand, class, known) {
                        best = cand;
                        progress = true;
                    } else if best[ti][i] > 1 {
                        let mut cand = best.clone();
                        cand[ti][i] = best[ti][i] / 2;
                        evals += 1;
                        if fails_same(prop, &cand, class, known) {
                            best = cand;
                            progress = true;
                        }
                    }
                }
                i += 1;
            }
            // trailing zeros carry no information
            while best[ti].last() == Some(&0) {
                best[ti].pop();
            }
        }
    }
    (best, evals)
}

fn render_case(prop: &str, tapes: &[Vec<u32>; 5]) -> serde_json::Value {
    // Rebuild the workload from the tapes for a human-readable rendering.
    let mut t = Tapes::replaying(tapes);
    let bias_tags = crate::runner::wants_tag_bias(prop) && t.query.draw(2) == 1;
    match crate::runner::build_workload_biased(&mut t, prop == "C22", bias_tags) {
        Ok(w) => w.render(),
        Err(_) => serde_json::json!({"note": "workload could not be rebuilt for rendering"}),
    }
}

fn write_replay(
    prop: &str,
    seed: u64,
    run: u64,
    tapes: &[Vec<u32>; 5],
    before: &[Vec<u32>; 5],
    v: &Violation,
    shrink_evals: usize,
) -> PathBuf {
    let dir = verif_dir().join("replays");
    let _ = std::fs::create_dir_all(&dir);
    let path = dir.join(format!("{prop}-{seed}-{run}.json"));
    let tapes_json: BTreeMap<&str, &Vec<u32>> =
        TAPE_NAMES.iter().copied().zip(tapes.iter()).collect();
    // the minimised schedule and fault trace, human-readable: complete adapter event logs of
    // every execution of the minimised case
    crate::runner::RECORD_LOGS.with(|r| *r.borrow_mut() = Some(vec![]));
    let _ = replay_case(prop, tapes);
    let schedule = crate::runner::RECORD_LOGS.with(|r| r.borrow_mut().take()).unwrap_or_default();
    let j = serde_json::json!({
        "version": 1,
        "property": prop,
        "engine": "tfsim",
        "verif_seed": seed,
        "run": run,
        "tapes": tapes_json,
        "violation": {"class": v.class, "detail": v.detail, "fingerprint": v.fingerprint},
        "rendered": render_case(prop, tapes),
        "schedule_and_fault_trace": schedule,
        "shrink": {
            "evaluations": shrink_evals,
            "tape_len_before": before.iter().map(|t| t.len()).collect::<Vec<_>>(),
            "tape_len_after": tapes.iter().map(|t| t.len()).collect::<Vec<_>>(),
        },
    });
    std::fs::write(&path, serde_json::to_string_pretty(&j).unwrap()).expect("write replay file");
    path
}

pub fn load_replay(path: &Path) -> Result<(String, [Vec<u32>; 5], String), String> {
    let text = std::fs::read_to_string(path).map_err(|e| format!("{e}"))?;
    let j: serde_json::Value = serde_json::from_str(&text).map_err(|e| format!("{e}"))?;
    let prop = j["property"].as_str().ok_or("no property")?.to_string();
    let mut tapes: [Vec<u32>; 5] = Default::default();
    for (i, name) in TAPE_NAMES.iter().enumerate() {
        tapes[i] = j["tapes"][name]
            .as_array()
            .map(|a| a.iter().map(|x| x.as_u64().unwrap_or(0) as u32).collect())
            .unwrap_or_default();
    }
    let class = j["violation"]["class"].as_str().unwrap_or("").to_string();
    Ok((prop, tapes, class))
}

struct TierCfg {
    runs: u64,
    wall_cap_s: f64,
}

fn tier_cfg(prop: &str, tier: &str) -> TierCfg {
    let quick = tier != "thorough";
    let base: u64 = match prop {
        "C03" => 800_000,
        "C02" => 1_000_000,
        "C22" | "C23" => 2_500_000,
        "C15" => 300_000,
        "C25" => 1_200,
        "C20" => 20_000,
        _ => 2_000_000,
    };
    if quick {
        TierCfg { runs: base, wall_cap_s: 240.0 }
    } else {
        TierCfg { runs: base * 10, wall_cap_s: 1500.0 }
    }
}

fn level_for(prop: &str) -> &'static str {
    if prop == "C25" { "fault_enumeration" } else { "exploration" }
}

fn rule_for(prop: &str) -> String {
    let common = "each case = (generated schema + dataset, generated query, generated arguments) from five PRNG tapes seeded by (VERIF_SEED, run index), executed by the real engine over the simulated adapter; ";
    let nontrivial = "a case is non-trivial when it was not discarded, at least one non-baseline schedule/hint/consumer decision actually fired in one of its executions, and the query produced >= 1 row or rejected >= 1 candidate; distinct = distinct digests of (schema text, query text, complete adapter event logs of all executions)";
    let specific = match prop {
        "C01" => "oracle: row multiset under the lazy schedule S0 and under one random schedule with hint pruning equals the reference model's, and so does a third execution through the BasicAdapter flavour (blanket impl + helper functions, chunked read-ahead); ",
        "C02" => "oracle: row sequence under 3 independently drawn read-ahead schedules and under 2-3 interleaved live result iterators (same compiled query, and two different compiled queries over the same world on one adapter, each against its own solo run) equals the lazy baseline's, as does the BasicAdapter flavour; ",
        "C03" => "oracle: under S0, starting vertices pulled when row k is produced == least number of leading starting vertices contributing k rows (per-start counts measured with the engine itself), nothing pulled before the first next(), no adapter event after drop; consumer stops at tape-chosen k; ",
        "C04" => "oracle: row sequence with hint pruning at a tape-chosen subset of sites equals the hints-ignored run; ",
        "C05" => "oracle: every resolve_property(vid, p) has p in required_properties() at that call and in the list reported when vid was resolved; ",
        "C09" => "oracle: no panic outside the harness and no run exceeding the event cap, under S0, random schedules with hints, consumer cancellation, interleaving and the BasicAdapter flavour; in a fifth of the cases some argument values are deliberately outside the harness's typing of the variable (null, list with a null element, other base type) and the engine decides whether to accept them (refused => discarded); ",
        "C13" => "oracle: row keys == declared outputs == names derived from the query text; values valid for the declared type; declared type == documented rule; an engine panic located inside fn construct_outputs (the engine's own debug assertion that row keys == declared output names, which this debug-assertion build hits instead of handing out the malformed row) counts as a violation; ",
        "C21" => "oracle: every adapter call names a defined type/property/edge/subtype, passes exactly the declared parameters (explicit, default or null) and only instances of the named type; ",
        "C22" => "workload biased to folds with count filters; oracle: rows equal the full-materialisation model and are unchanged by observation transforms; ",
        "C23" => "oracle: metamorphic relation between the original and the transformed query, each under an independently drawn schedule; relations: add-filter / add-count-filter => subset, raise recursion depth => superset, make edge @optional => superset, parameterised edge == equivalent filter, = == one_of [x] (properties and fold counts), filter + exact negation partition the rows (properties and fold counts, outside optional scopes), rename outputs/tags, reorder sibling selections; ",
        "C25" => "each case = one generated schema; for it the single-fault space {property, neighbors, coercion} x every (type, field / coercion target) site the checker reaches x {swap adjacent contexts, rotate, reverse, non-null property / one neighbor / true coercion for a context without an active vertex} x position {first, middle, last} is enumerated completely, one fault per run of the real check_adapter_invariants, the adapter pulling its input in chunks of a tape-chosen size; oracle: no fault => returns; fault fired => panics; every documented site is reached; evaluations counts schemas, coverage.single_fault_runs counts checker runs; ",
        "C20" => "each case = one generated schema; (a) the real check_adapter_invariants on the real SchemaAdapter, and the engine run over SchemaAdapter behind an order-preserving wrapper that reads ahead in tape-chosen chunks and injects contexts without an active vertex (answers for them must be null / no neighbors / false, in place); (b) generated introspection queries over the meta-schema, engine-over-SchemaAdapter rows equal the reference model evaluated on the harness's own view of its schema AST (multisets, fold lists canonicalised: hash order is not part of the claim); ",
        "C15" => "oracle: rows through AdapterTap equal direct rows; trace survives a RON round trip; replay without the data source reproduces the rows; ",
        _ => "",
    };
    format!("{common}{specific}{nontrivial}")
}

pub fn components_json() -> serde_json::Value {
    serde_json::json!({
        "real_code": ["trustfall_core::schema::Schema::parse", "trustfall_core::frontend::parse", "trustfall_core::interpreter::execution::interpret_ir (whole interpreter)", "interpreter::hints (ResolveInfo, ResolveEdgeInfo, VertexInfo, DynamicallyResolvedValue)", "InterpretedQuery argument validation", "interpreter::basic_adapter (blanket impl Adapter for BasicAdapter, default resolve_typename) and interpreter::helpers (resolve_property_with, resolve_neighbors_with, resolve_coercion_using_schema): second adapter flavour in C01 C02 C09 C13 C21"],
        "stubs": ["data source (generated in-memory graph behind SimAdapter)", "consumer of the result iterator"],
    })
}

pub fn check(prop: &str, tier: &str, runs_override: Option<u64>) -> i32 {
    let seed = seed_from_env();
    let cfg = tier_cfg(prop, tier);
    let runs = runs_override.unwrap_or(cfg.runs);
    println!("VERIF_SEED={seed} property={prop} tier={tier} runs={runs} threads={}", threads());
    let known = load_known();
    let t0 = Instant::now();
    let (agg, truncated) = run_batch(prop, seed, runs, cfg.wall_cap_s, false);
    let batch_s = t0.elapsed().as_secs_f64();
    let Agg {
        runs: total_runs,
        harness_errors,
        discarded,
        evaluated,
        nontrivial,
        fires,
        probes,
        features,
        events,
        execs,
        inconclusive,
        samples: sample_records,
        with_rows,
        undefined,
        nonforest,
        violations: all_violations,
        lines: _,
    } = agg;
    let mut samples: Vec<serde_json::Value> = sample_records
        .iter()
        .filter(|x| x.1)
        .take(3)
        .map(|(i, _, s)| serde_json::json!({"run": i, "case": s}))
        .collect();
    if samples.is_empty() {
        samples = sample_records.iter().take(1).map(|(i, _, s)| serde_json::json!({"run": i, "case": s})).collect();
    }
    let mut unknown: Vec<(u64, Violation, [Vec<u32>; 5])> = vec![];
    let mut known_hits: BTreeMap<String, (u64, String)> = BTreeMap::new();
    for (index, v, tapes) in all_violations {
        match match_known(&known, prop, &tapes, &v) {
            Some(k) => {
                let e = known_hits.entry(k.pattern.clone()).or_insert((0, k.what.clone()));
                e.0 += 1;
            }
            None => unknown.push((index, v, tapes)),
        }
    }

    if !harness_errors.is_empty() {
        for (i, m) in harness_errors.iter().take(3) {
            eprintln!("HARNESS ERROR run={i}: {m}");
        }
        return 2;
    }
    for (pat, (n, what)) in &known_hits {
        println!("KNOWN-FINDING: property={prop} {what} [match={pat}; hit in {n} runs]");
    }

    if std::env::var("TFSIM_LIST").is_ok() {
        let mut table: BTreeMap<String, (u64, u64, String)> = BTreeMap::new();
        for (run, v, _) in &unknown {
            let key = format!("{}|{}", v.class, v.fingerprint.split("|features=").next().unwrap_or(""));
            let e = table.entry(key).or_insert((0, *run, v.detail.clone()));
            e.0 += 1;
        }
        for (k, (n, run, detail)) in &table {
            println!("LIST n={n} first_run={run} {k}\n      {}", &detail[..detail.len().min(300)]);
        }
        return if unknown.is_empty() { 0 } else { 1 };
    }

    // Report up to 3 unknown violations with distinct fingerprints, minimised.
    let mut reported = 0;
    let mut seen_fp = BTreeSet::new();
    let mut violation_lines = vec![];
    for (run, v, tapes) in &unknown {
        let key = format!("{}|{}", v.class, v.fingerprint.split("|features=").next().unwrap_or(""));
        if !seen_fp.insert(key) {
            continue;
        }
        if reported >= 3 {
            break;
        }
        let budget = if tier == "thorough" { 3000 } else { 1200 };
        let (small, evals) = shrink(prop, tapes.clone(), &v.class, &known, budget);
        // the minimised case's own violation text
        let vv = match replay_case(prop, &small) {
            Ok(r) => r
                .violations
                .into_iter()
                .find(|x| x.class == v.class && match_known(&known, prop, &small, x).is_none())
                .unwrap_or_else(|| v.clone()),
            Err(_) => v.clone(),
        };
        let path = write_replay(prop, seed, *run, &small, tapes, &vv, evals);
        println!("VIOLATION property={prop} replay={}", path.display());
        println!("  class={} detail={}", vv.class, vv.detail);
        violation_lines.push(path.display().to_string());
        reported += 1;
    }

    let wall_s = t0.elapsed().as_secs_f64();
    let evidence = serde_json::json!({
        "property_id": prop,
        "tier": if tier == "thorough" { "thorough" } else { "quick" },
        "seed": seed,
        "level": level_for(prop),
        "coverage": {
            "evaluations": evaluated.max(1),
            "distinct_nontrivial": nontrivial.len(),
            "rule": rule_for(prop),
            "samples": samples,
            "simulated_runs": total_runs,
            "runs_requested": runs,
            "truncated_by_wall_cap": truncated,
            "engine_executions": execs,
            "runs_per_hour": if batch_s > 0.0 { (total_runs as f64 / batch_s * 3600.0) as u64 } else { 0 },
            "simulated_time_logical_events": events,
            "discarded": discarded,
            "cases_with_rows": with_rows,
            "cases_model_silent_undefined_semantics": undefined,
            "cases_compared_as_sets_nonforest_recursion": nonforest,
            "fault_kinds_fired": fires.to_json(),
            "reach_probes": probes,
            "query_features": features,
            "inconclusive_executions": inconclusive,
            "known_findings_hit": known_hits.iter().map(|(k, (n, w))| serde_json::json!({"match": k, "runs": n, "what": w})).collect::<Vec<_>>(),
            "components": components_json(),
            "exhaustive": false,
        },
        "assumptions": [
            "the reference model (sim/src/model.rs, written from spec.md and the language reference) is trusted where it speaks; it is silent on invalid regex patterns and ordering of list operands, and compares as sets on non-forest recursion data",
            "only adapters expressible by SimAdapter's knobs are explored (order-preserving read-ahead, buffering, hint use); sampling, not enumeration",
            "the regex crate is shared between the engine and the model",
        ],
        "wall_s": wall_s,
        "violations": unknown.len(),
    });
    let ev_dir = verif_dir().join("evidence");
    let _ = std::fs::create_dir_all(&ev_dir);
    std::fs::write(
        ev_dir.join(format!("{prop}.json")),
        serde_json::to_string_pretty(&evidence).unwrap(),
    )
    .expect("write evidence");
    println!(
        "runs={total_runs} evaluated={evaluated} distinct_nontrivial={} executions={execs} events={events} unknown_violations={} known_hits={} wall_s={wall_s:.1}",
        nontrivial.len(),
        unknown.len(),
        known_hits.len()
    );
    if unknown.is_empty() { 0 } else { 1 }
}

pub fn replay(path: &str) -> i32 {
    let (prop, tapes, class) = match load_replay(Path::new(path)) {
        Ok(x) => x,
        Err(e) => {
            eprintln!("harness error: cannot load replay {path}: {e}");
            return 2;
        }
    };
    let known = load_known();
    // C20 drives the real SchemaAdapter, whose VertexType order is std hash order (fresh keys for
    // every HashMap): a failure that depends on that order is retried under fresh orders.
    let attempts = if prop == "C20" { 40 } else { 1 };
    let mut last = replay_case(&prop, &tapes);
    for _ in 1..attempts {
        match &last {
            Ok(r) if !r.violations.iter().any(|v| v.class == class) => last = replay_case(&prop, &tapes),
            _ => break,
        }
    }
    match last {
        Err(HarnessError(m)) => {
            eprintln!("HARNESS ERROR: {m}");
            2
        }
        Ok(r) => {
            let mut hit = false;
            for v in &r.violations {
                let k = match_known(&known, &prop, &tapes, v).is_some();
                println!(
                    "{} property={} class={} detail={}",
                    if k { "KNOWN-FINDING:" } else { "VIOLATION" },
                    v.property,
                    v.class,
                    v.detail
                );
                if v.class == class && !k {
                    hit = true;
                }
            }
            if hit {
                println!("VIOLATION property={prop} replay={path}");
                1
            } else {
                println!("not reproduced: no violation of class `{class}`");
                0
            }
        }
    }
}

fn show(prop: &str, seed: u64, run: u64) -> i32 {
    if prop == "C20" {
        let mut tapes = Tapes::generating(seed, run);
        crate::introspect::debug_show(&mut tapes);
        return 0;
    }
    let mut tapes = Tapes::generating(seed, run);
    match crate::runner::build_workload(&mut tapes, prop == "C22") {
        Ok(w) => {
            println!("{}", w.schema_text);
            println!("{}", w.query_text);
            println!("{}", serde_json::to_string_pretty(&w.render()["args"]).unwrap());
            println!("{}", serde_json::to_string_pretty(&w.render()["dataset"]).unwrap());
            let m = w.model();
            println!("model rows: {}", m.rows.len());
            for r in m.rows.iter().take(10) {
                println!("  {}", crate::model::render_row(r));
            }
        }
        Err(crate::runner::BuildError::Discard(_, Some((s, q)))) => {
            println!("{s}\n{q}\nDISCARDED");
        }
        Err(_) => println!("build error"),
    }
    let mut tapes = Tapes::generating(seed, run);
    match run_case(prop, &mut tapes) {
        Ok(r) => {
            println!("discarded: {:?}", r.stats.discarded);
            println!("inconclusive: {:?}", r.stats.inconclusive);
            for v in r.violations {
                println!("VIOLATION {} {} {}\n   fp={}", v.property, v.class, v.detail, v.fingerprint);
            }
        }
        Err(HarnessError(m)) => println!("HARNESS ERROR {m}"),
    }
    0
}

pub fn main(args: &[String]) -> i32 {
    install_panic_hook();
    match args.first().map(|s| s.as_str()) {
        Some("check") => {
            let prop = args.get(1).cloned().unwrap_or_default();
            let tier = args.get(2).cloned().unwrap_or_else(|| "quick".into());
            let runs = args
                .iter()
                .position(|a| a == "--runs")
                .and_then(|i| args.get(i + 1))
                .and_then(|s| s.parse().ok());
            check(&prop, &tier, runs)
        }
        Some("replay") => replay(args.get(1).map(|s| s.as_str()).unwrap_or("")),
        Some("digest") => {
            // Determinism proof support: one line per run with the digest of everything observed
            // (schema text, query text, complete adapter event logs of all executions).
            let prop = args.get(1).cloned().unwrap_or_default();
            let runs: u64 = args.get(2).and_then(|s| s.parse().ok()).unwrap_or(1000);
            let (agg, _) = run_batch(&prop, seed_from_env(), runs, 1e9, true);
            let mut all = crate::tape::Digest::new();
            for (_, line) in &agg.lines {
                all.add_str(line);
                if std::env::var("TFSIM_DIGEST_LINES").is_ok() {
                    println!("{line}");
                }
            }
            println!("DIGEST prop={prop} runs={} {:016x}", agg.runs, all.0);
            0
        }
        Some("hashsim") => {
            let tier = args.get(1).cloned().unwrap_or_else(|| "quick".into());
            crate::hashsim::check(&tier, seed_from_env())
        }
        Some("hashsim-emit") => {
            let g = |i: usize| args.get(i).and_then(|s| s.parse::<u64>().ok()).unwrap_or(0);
            crate::hashsim::emit(g(1), g(2), g(3))
        }
        Some("hashsim-replay") => crate::hashsim::replay(args.get(1).map(|s| s.as_str()).unwrap_or("")),
        Some("show") => {
            let prop = args.get(1).cloned().unwrap_or_default();
            let run = args.get(2).and_then(|s| s.parse().ok()).unwrap_or(0);
            show(&prop, seed_from_env(), run)
        }
        _ => {
            eprintln!("usage: tfsim check <ID> <quick|thorough> [--runs N] | replay <path> | show <ID> <run>");
            2
        }
    }
}
