//! Reference model: a denotational evaluator over the harness AST and the dataset
//! (Appendix F of DESIGN.md). It never sees the IR, the hints, or an iterator.

use std::collections::{BTreeMap, BTreeSet};

use trustfall_core::ir::FieldValue;

use crate::qast::{EdgeKind, Operand, QEdge, QFilter, QItem, QNode, QueryAst};
use crate::val::{Base, Holds, Ty, Val, holds};
use crate::world::World;

pub type Row = BTreeMap<String, Val>;

#[derive(Clone, Debug)]
pub enum TagDef {
    Prop { vid: usize, name: String },
    Count { fold_vid: usize },
}

#[derive(Clone, Debug)]
struct Env {
    bind: BTreeMap<usize, Option<u32>>,
    folds: BTreeMap<usize, Option<Vec<Env>>>,
}

#[derive(Debug, Default)]
pub struct ModelResult {
    pub rows: Vec<Row>,
    /// The documents do not define the outcome of this query on this data (invalid regex pattern,
    /// ordering comparison of lists): the model does not speak.
    pub undefined: Option<&'static str>,
    /// Recursion reached some vertex along two different walks: compared as sets.
    pub nonforest: bool,
    /// The model exceeded its own size cap: the run is discarded.
    pub overflow: bool,
    /// Per starting vertex (in data order): number of rows it contributes.
    pub rows_per_start: Vec<usize>,
    pub steps: u64,
    /// Workload-side reach probes.
    pub probes: BTreeSet<&'static str>,
}

impl ModelResult {
    /// Bounded liveness: with a finite data source the engine must finish within a number of
    /// adapter events proportional to the work the model had to do. Where the model does not
    /// speak (undefined semantics) its step count says nothing about the engine's work: a flat,
    /// generous cap applies instead.
    pub fn event_cap(&self) -> u64 {
        if self.undefined.is_some() { 8_000_000 } else { 400 * self.steps + 200_000 }
    }
}

pub struct Model<'a> {
    world: &'a World,
    args: &'a BTreeMap<String, FieldValue>,
    tags: BTreeMap<String, TagDef>,
    undefined: Option<&'static str>,
    nonforest: bool,
    overflow: bool,
    steps: u64,
    probes: BTreeSet<&'static str>,
    cap: usize,
}

fn collect_tags(n: &QNode, out: &mut BTreeMap<String, TagDef>) {
    for it in &n.items {
        match it {
            QItem::Prop(p) => {
                for t in &p.tags {
                    let name = t.clone().unwrap_or_else(|| p.alias.clone().unwrap_or(p.name.clone()));
                    out.insert(name, TagDef::Prop { vid: n.vid, name: p.name.clone() });
                }
            }
            QItem::Edge(e) => {
                if let EdgeKind::Fold(fs) = &e.kind {
                    for t in &fs.count_tags {
                        out.insert(t.clone(), TagDef::Count { fold_vid: e.node.vid });
                    }
                }
                collect_tags(&e.node, out);
            }
        }
    }
}

enum OperandVal {
    Pass,
    Val(Val),
}

impl<'a> Model<'a> {
    pub fn new(world: &'a World, q: &QueryAst, args: &'a BTreeMap<String, FieldValue>) -> Self {
        let mut tags = BTreeMap::new();
        collect_tags(&q.root, &mut tags);
        Model {
            world,
            args,
            tags,
            undefined: None,
            nonforest: false,
            overflow: false,
            steps: 0,
            probes: BTreeSet::new(),
            cap: 4000,
        }
    }

    fn operand(&mut self, f: &QFilter, cur_vid: usize, cur: Option<u32>, env: &Env) -> OperandVal {
        match &f.operand {
            Operand::None => OperandVal::Val(Val::Null),
            Operand::Var(v) => {
                OperandVal::Val(self.args.get(v).map(Val::from_fv).unwrap_or(Val::Null))
            }
            Operand::Tag(t) => match self.tags.get(t).cloned() {
                None => OperandVal::Pass,
                Some(TagDef::Prop { vid, name }) => {
                    let b = if vid == cur_vid { cur } else { env.bind.get(&vid).copied().flatten() };
                    match b {
                        None => {
                            self.probes.insert("tag_from_missing_optional");
                            OperandVal::Pass
                        }
                        Some(u) => OperandVal::Val(self.world.prop_val(u, &name)),
                    }
                }
                Some(TagDef::Count { fold_vid }) => match env.folds.get(&fold_vid) {
                    Some(Some(rows)) => OperandVal::Val(Val::Int(rows.len() as i128)),
                    _ => {
                        self.probes.insert("count_tag_from_nonexistent_fold");
                        OperandVal::Pass
                    }
                },
            },
        }
    }

    fn filter_holds(&mut self, f: &QFilter, left: &Val, r: OperandVal) -> bool {
        match r {
            OperandVal::Pass => true,
            OperandVal::Val(rv) => match holds(f.op, left, &rv) {
                Holds::Yes => true,
                Holds::No => false,
                Holds::Undefined(why) => {
                    self.undefined = Some(why);
                    false
                }
            },
        }
    }

    fn eval_node(&mut self, n: &QNode, b: Option<u32>, env: &Env) -> Vec<Env> {
        self.steps += 1;
        if self.overflow {
            return vec![];
        }
        if let (Some(v), Some(ct)) = (b, n.coerce_to) {
            if !self.world.is_instance(v, ct) {
                return vec![];
            }
        }
        if b.is_none() && n.coerce_to.is_some() {
            self.probes.insert("coercion_under_missing_optional");
        }
        for it in &n.items {
            if let QItem::Prop(p) = it {
                for f in &p.filters {
                    let Some(v) = b else {
                        self.probes.insert("filter_under_missing_optional");
                        continue;
                    };
                    let left = self.world.prop_val(v, &p.name);
                    let r = self.operand(f, n.vid, b, env);
                    if !self.filter_holds(f, &left, r) {
                        return vec![];
                    }
                }
            }
        }
        let mut env1 = env.clone();
        env1.bind.insert(n.vid, b);
        let mut envs = vec![env1];
        for it in &n.items {
            if let QItem::Edge(e) = it {
                let mut next = vec![];
                for en in &envs {
                    next.extend(self.eval_edge(n, e, en));
                    if next.len() > self.cap {
                        self.overflow = true;
                        return vec![];
                    }
                }
                envs = next;
                if envs.is_empty() {
                    break;
                }
            }
        }
        envs
    }

    fn eval_edge(&mut self, n: &QNode, e: &QEdge, env: &Env) -> Vec<Env> {
        self.steps += 1;
        let s = env.bind.get(&n.vid).copied().flatten();
        let params = self.effective_params(n, e);
        match &e.kind {
            EdgeKind::Plain | EdgeKind::Optional => {
                let optional = matches!(e.kind, EdgeKind::Optional);
                let Some(sv) = s else {
                    return self.eval_node(&e.node, None, env);
                };
                let ns = self.world.neighbors(sv, &e.name, &params);
                if ns.is_empty() && optional {
                    self.probes.insert("optional_missing");
                    return self.eval_node(&e.node, None, env);
                }
                let mut out = vec![];
                for u in ns {
                    out.extend(self.eval_node(&e.node, Some(u), env));
                }
                out
            }
            EdgeKind::Recurse(d) => {
                let Some(sv) = s else {
                    return self.eval_node(&e.node, None, env);
                };
                let edef = self.world.schema.edge(n.eff_ty(), &e.name).cloned();
                let coerce = edef
                    .as_ref()
                    .and_then(|ed| self.world.schema.recurse_rule(n.eff_ty(), ed).ok())
                    .flatten();
                if coerce.is_some() {
                    self.probes.insert("recurse_implicit_coercion");
                }
                // Depth-first pre-order over walks of length 0..d (one entry per walk).
                let mut order: Vec<u32> = vec![];
                let mut stack: Vec<(u32, usize)> = vec![(sv, 0)];
                while let Some((w, k)) = stack.pop() {
                    order.push(w);
                    if order.len() > self.cap {
                        self.overflow = true;
                        return vec![];
                    }
                    if k < *d as usize {
                        let can_continue = k == 0
                            || match coerce {
                                None => true,
                                Some(x) => self.world.is_instance(w, x),
                            };
                        if can_continue {
                            let ns = self.world.neighbors(w, &e.name, &params);
                            for u in ns.into_iter().rev() {
                                stack.push((u, k + 1));
                            }
                        } else {
                            self.probes.insert("recurse_stopped_by_implicit_coercion");
                        }
                    }
                }
                let levels = vec![order];
                let mut seen = BTreeSet::new();
                for u in levels.iter().flatten() {
                    if !seen.insert(*u) {
                        self.nonforest = true;
                    }
                }
                let mut out = vec![];
                for u in levels.iter().flatten() {
                    out.extend(self.eval_node(&e.node, Some(*u), env));
                    if out.len() > self.cap {
                        self.overflow = true;
                        return vec![];
                    }
                }
                out
            }
            EdgeKind::Fold(fs) => {
                let Some(sv) = s else {
                    self.probes.insert("fold_under_missing_optional");
                    if !fs.count_filters.is_empty() {
                        self.probes.insert("count_filter_on_nonexistent_fold");
                    }
                    let mut en = env.clone();
                    en.folds.insert(e.node.vid, None);
                    return vec![en];
                };
                let ns = self.world.neighbors(sv, &e.name, &params);
                let mut inner = vec![];
                for u in ns {
                    inner.extend(self.eval_node(&e.node, Some(u), env));
                    if inner.len() > self.cap {
                        self.overflow = true;
                        return vec![];
                    }
                }
                let count = Val::Int(inner.len() as i128);
                for f in &fs.count_filters {
                    // reach probe: the engine's early-termination paths only matter when the
                    // fold is larger than the bound the filter puts on its count
                    if let Operand::Var(v) = &f.operand {
                        let bound = match self.args.get(v).map(Val::from_fv) {
                            Some(Val::Int(b)) => Some(b),
                            Some(Val::List(l)) => l.iter().filter_map(|x| if let Val::Int(b) = x { Some(*b) } else { None }).max(),
                            _ => None,
                        };
                        if let Some(b) = bound {
                            if (inner.len() as i128) > b.max(0) {
                                self.probes.insert("fold_larger_than_its_count_filter_bound");
                            }
                        }
                    }
                    let r = self.operand(f, usize::MAX, None, env);
                    if !self.filter_holds(f, &count, r) {
                        return vec![];
                    }
                }
                let mut en = env.clone();
                en.folds.insert(e.node.vid, Some(inner));
                vec![en]
            }
        }
    }

    /// Explicit parameters plus the schema's declared defaults (null for nullable parameters
    /// without a default).
    fn effective_params(&self, n: &QNode, e: &QEdge) -> BTreeMap<String, FieldValue> {
        let mut out = BTreeMap::new();
        if let Some(def) = self.world.schema.edge(n.eff_ty(), &e.name) {
            for p in &def.params {
                let v = match e.params.get(&p.name) {
                    Some(v) => v.clone(),
                    None => p.default.clone().unwrap_or(FieldValue::Null),
                };
                out.insert(p.name.clone(), v);
            }
        }
        out
    }

    fn project(&self, n: &QNode, env: &Env, prefix: &str, out: &mut Row) {
        let b = env.bind.get(&n.vid).copied().flatten();
        for it in &n.items {
            match it {
                QItem::Prop(p) => {
                    for o in &p.outputs {
                        let name = match o {
                            Some(x) => x.clone(),
                            None => format!("{prefix}{}", p.alias.clone().unwrap_or(p.name.clone())),
                        };
                        let v = match b {
                            Some(u) => self.world.prop_val(u, &p.name),
                            None => Val::Null,
                        };
                        out.insert(name, v);
                    }
                }
                QItem::Edge(e) => {
                    let child_prefix = format!("{prefix}{}", e.alias.clone().unwrap_or_default());
                    match &e.kind {
                        EdgeKind::Fold(fs) => {
                            let rec = env.folds.get(&e.node.vid).cloned().flatten();
                            for o in &fs.count_outputs {
                                let name = match o {
                                    Some(x) => x.clone(),
                                    None => {
                                        let local = if e.alias.is_some() { "" } else { e.name.as_str() };
                                        format!("{child_prefix}{local}count")
                                    }
                                };
                                let v = match &rec {
                                    Some(rows) => Val::Int(rows.len() as i128),
                                    None => Val::Null,
                                };
                                out.insert(name, v);
                            }
                            let mut names = vec![];
                            output_names(&e.node, &child_prefix, &mut names);
                            match &rec {
                                None => {
                                    for nm in names {
                                        out.insert(nm, Val::Null);
                                    }
                                }
                                Some(rows) => {
                                    let inner_rows: Vec<Row> = rows
                                        .iter()
                                        .map(|ie| {
                                            let mut r = Row::new();
                                            self.project(&e.node, ie, &child_prefix, &mut r);
                                            r
                                        })
                                        .collect();
                                    for nm in names {
                                        let vals: Vec<Val> = inner_rows
                                            .iter()
                                            .map(|r| r.get(&nm).cloned().unwrap_or(Val::Null))
                                            .collect();
                                        out.insert(nm, Val::List(vals));
                                    }
                                }
                            }
                        }
                        _ => self.project(&e.node, env, &child_prefix, out),
                    }
                }
            }
        }
    }

    pub fn run(mut self, q: &QueryAst) -> ModelResult {
        let mut entry_params = BTreeMap::new();
        if let Some(ep) = self.world.schema.entry_point(&q.entry) {
            for p in &ep.params {
                let v = match q.entry_params.get(&p.name) {
                    Some(v) => v.clone(),
                    None => p.default.clone().unwrap_or(FieldValue::Null),
                };
                entry_params.insert(p.name.clone(), v);
            }
        }
        let starts = self.world.starting(&q.entry, &entry_params);
        let mut rows = vec![];
        let mut per_start = vec![];
        let empty = Env { bind: BTreeMap::new(), folds: BTreeMap::new() };
        for v in starts {
            let envs = self.eval_node(&q.root, Some(v), &empty);
            per_start.push(envs.len());
            for en in &envs {
                let mut r = Row::new();
                self.project(&q.root, en, "", &mut r);
                rows.push(r);
            }
            if rows.len() > self.cap {
                self.overflow = true;
            }
            if self.overflow {
                break;
            }
        }
        ModelResult {
            rows,
            undefined: self.undefined,
            nonforest: self.nonforest,
            overflow: self.overflow,
            rows_per_start: per_start,
            steps: self.steps,
            probes: self.probes,
        }
    }
}

/// Names of all outputs in a component rooted at `n`, including outputs of nested folds.
pub fn output_names(n: &QNode, prefix: &str, out: &mut Vec<String>) {
    for it in &n.items {
        match it {
            QItem::Prop(p) => {
                for o in &p.outputs {
                    out.push(match o {
                        Some(x) => x.clone(),
                        None => format!("{prefix}{}", p.alias.clone().unwrap_or(p.name.clone())),
                    });
                }
            }
            QItem::Edge(e) => {
                let child_prefix = format!("{prefix}{}", e.alias.clone().unwrap_or_default());
                if let EdgeKind::Fold(fs) = &e.kind {
                    for o in &fs.count_outputs {
                        out.push(match o {
                            Some(x) => x.clone(),
                            None => {
                                let local = if e.alias.is_some() { "" } else { e.name.as_str() };
                                format!("{child_prefix}{local}count")
                            }
                        });
                    }
                }
                output_names(&e.node, &child_prefix, out);
            }
        }
    }
}

/// Declared output types by the documented rule, independently of ir/indexed.rs:
/// nullable under `@optional` (within its own component), one list level per enclosing `@fold`
/// (nullable iff the fold's source vertex is under an `@optional`), `Int!` for counts.
pub fn expected_output_types(q: &QueryAst) -> BTreeMap<String, Ty> {
    fn wrap(mut t: Ty, folds: &[bool]) -> Ty {
        for nullable in folds.iter().rev() {
            t = Ty::list(t, *nullable);
        }
        t
    }
    fn go(
        n: &QNode,
        prefix: &str,
        under_optional: bool,
        folds: &mut Vec<bool>,
        out: &mut BTreeMap<String, Ty>,
    ) {
        for it in &n.items {
            match it {
                QItem::Prop(p) => {
                    for o in &p.outputs {
                        let name = match o {
                            Some(x) => x.clone(),
                            None => format!("{prefix}{}", p.alias.clone().unwrap_or(p.name.clone())),
                        };
                        let base = if under_optional { p.ty.with_nullable(true) } else { p.ty.clone() };
                        out.insert(name, wrap(base, folds));
                    }
                }
                QItem::Edge(e) => {
                    let child_prefix = format!("{prefix}{}", e.alias.clone().unwrap_or_default());
                    match &e.kind {
                        EdgeKind::Plain | EdgeKind::Recurse(_) => {
                            go(&e.node, &child_prefix, under_optional, folds, out)
                        }
                        EdgeKind::Optional => go(&e.node, &child_prefix, true, folds, out),
                        EdgeKind::Fold(fs) => {
                            for o in &fs.count_outputs {
                                let name = match o {
                                    Some(x) => x.clone(),
                                    None => {
                                        let local = if e.alias.is_some() { "" } else { e.name.as_str() };
                                        format!("{child_prefix}{local}count")
                                    }
                                };
                                out.insert(name, wrap(Ty::named(Base::Int, under_optional), folds));
                            }
                            folds.push(under_optional);
                            go(&e.node, &child_prefix, false, folds, out);
                            folds.pop();
                        }
                    }
                }
            }
        }
    }
    let mut out = BTreeMap::new();
    go(&q.root, "", false, &mut vec![], &mut out);
    out
}

pub fn canon_rows(rows: &[Row]) -> Vec<Vec<(String, Val)>> {
    let mut v: Vec<Vec<(String, Val)>> =
        rows.iter().map(|r| r.iter().map(|(k, v)| (k.clone(), v.clone())).collect()).collect();
    v.sort_by(|a, b| cmp_row(a, b));
    v
}

pub fn cmp_row(a: &[(String, Val)], b: &[(String, Val)]) -> std::cmp::Ordering {
    for ((ka, va), (kb, vb)) in a.iter().zip(b.iter()) {
        let c = ka.cmp(kb).then_with(|| va.total_cmp(vb));
        if c != std::cmp::Ordering::Equal {
            return c;
        }
    }
    a.len().cmp(&b.len())
}

pub fn render_row(r: &Row) -> String {
    let parts: Vec<String> = r.iter().map(|(k, v)| format!("{k}: {}", v.render())).collect();
    format!("{{{}}}", parts.join(", "))
}

/// Compare two row collections as multisets (or as sets when `as_sets`).
pub fn rows_differ(a: &[Row], b: &[Row], as_sets: bool) -> Option<String> {
    let mut ca = canon_rows(a);
    let mut cb = canon_rows(b);
    if as_sets {
        ca.dedup_by(|x, y| cmp_row(x, y) == std::cmp::Ordering::Equal);
        cb.dedup_by(|x, y| cmp_row(x, y) == std::cmp::Ordering::Equal);
    }
    if ca.len() != cb.len() {
        // find first row present in one and not the other
        let detail = first_difference(&ca, &cb);
        return Some(format!("{} rows vs {} rows; {}", ca.len(), cb.len(), detail));
    }
    for (x, y) in ca.iter().zip(cb.iter()) {
        if cmp_row(x, y) != std::cmp::Ordering::Equal {
            return Some(first_difference(&ca, &cb));
        }
    }
    None
}

fn first_difference(a: &[Vec<(String, Val)>], b: &[Vec<(String, Val)>]) -> String {
    let (mut i, mut j) = (0, 0);
    while i < a.len() && j < b.len() {
        match cmp_row(&a[i], &b[j]) {
            std::cmp::Ordering::Equal => {
                i += 1;
                j += 1;
            }
            std::cmp::Ordering::Less => {
                return format!("only in first: {}", render_pairs(&a[i]));
            }
            std::cmp::Ordering::Greater => {
                return format!("only in second: {}", render_pairs(&b[j]));
            }
        }
    }
    if i < a.len() {
        return format!("only in first: {}", render_pairs(&a[i]));
    }
    if j < b.len() {
        return format!("only in second: {}", render_pairs(&b[j]));
    }
    "no difference".to_string()
}

fn render_pairs(r: &[(String, Val)]) -> String {
    let parts: Vec<String> = r.iter().map(|(k, v)| format!("{k}: {}", v.render())).collect();
    format!("{{{}}}", parts.join(", "))
}

/// Canonicalise the element order of every fold's output lists (keeping the lists of one fold
/// aligned): used where the order of neighbors is not part of the claim (C20: hash order).
pub fn canon_fold_lists(n: &QNode, prefix: &str, row: &mut Row) {
    for it in &n.items {
        if let QItem::Edge(e) = it {
            let child_prefix = format!("{prefix}{}", e.alias.clone().unwrap_or_default());
            match &e.kind {
                EdgeKind::Fold(_) => {
                    let mut names = vec![];
                    output_names(&e.node, &child_prefix, &mut names);
                    if names.is_empty() {
                        continue;
                    }
                    let len = match row.get(&names[0]) {
                        Some(Val::List(l)) => l.len(),
                        _ => continue,
                    };
                    let mut subs: Vec<Row> = vec![];
                    let mut ok = true;
                    for i in 0..len {
                        let mut r = Row::new();
                        for nm in &names {
                            match row.get(nm) {
                                Some(Val::List(l)) if l.len() == len => {
                                    r.insert(nm.clone(), l[i].clone());
                                }
                                _ => ok = false,
                            }
                        }
                        subs.push(r);
                    }
                    if !ok {
                        continue;
                    }
                    for s in subs.iter_mut() {
                        canon_fold_lists(&e.node, &child_prefix, s);
                    }
                    let mut canon = canon_rows(&subs);
                    canon.dedup_by(|_, _| false);
                    for nm in &names {
                        let vals: Vec<Val> = canon
                            .iter()
                            .map(|r| r.iter().find(|(k, _)| k == nm).map(|(_, v)| v.clone()).unwrap_or(Val::Null))
                            .collect();
                        row.insert(nm.clone(), Val::List(vals));
                    }
                }
                _ => canon_fold_lists(&e.node, &child_prefix, row),
            }
        }
    }
}
