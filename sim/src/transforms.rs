//! C22 observation transforms and C23 metamorphic relations over the harness AST.

use crate::checks::{CaseBridge, HarnessError};
use crate::tape::Tape;

pub fn case_c22(_cx: &mut CaseBridge<'_, '_>, _sched: &mut Tape) -> Result<(), HarnessError> {
    Err(HarnessError("C22 not built yet".into()))
}

pub fn case_c23(_cx: &mut CaseBridge<'_, '_>, _sched: &mut Tape) -> Result<(), HarnessError> {
    Err(HarnessError("C23 not built yet".into()))
}
