//! C22 observation transforms and C23 metamorphic relations over the harness AST.
//! Each relation is applied only at sites where it is sound (DESIGN.md section 4, C23).

use std::collections::BTreeMap;
use std::rc::Rc;

use trustfall_core::ir::FieldValue;

use crate::adapter::SchedCfg;
use crate::checks::{CaseBridge, HarnessError, Violation, harness_check_pub};
use crate::model::{Row, canon_rows, cmp_row, render_row, rows_differ};
use crate::qast::{
    EdgeKind, FoldSpec, Operand, QEdge, QFilter, QItem, QNode, QProp, QueryAst, VarInfo,
};
use crate::runner::{
    BuildError, Ending, ExecOpts, ExecOutcome, Workload, exec, finish_workload,
};
use crate::tape::Tape;
use crate::val::{Base, Op, Ty, Val};
use crate::world::{ParamMeaning, World, gen_fv};

#[derive(Clone, Debug)]
struct Site {
    /// item indices of the edges leading from the root node to this node
    path: Vec<usize>,
    in_fold: bool,
    in_optional: bool,
}

fn node_at<'a>(root: &'a QNode, path: &[usize]) -> &'a QNode {
    let mut n = root;
    for i in path {
        match &n.items[*i] {
            QItem::Edge(e) => n = &e.node,
            _ => unreachable!("path does not lead through an edge"),
        }
    }
    n
}

fn node_at_mut<'a>(root: &'a mut QNode, path: &[usize]) -> &'a mut QNode {
    let mut n = root;
    for i in path {
        match &mut n.items[*i] {
            QItem::Edge(e) => n = &mut e.node,
            _ => unreachable!("path does not lead through an edge"),
        }
    }
    n
}

fn collect_sites(n: &QNode, path: &mut Vec<usize>, in_fold: bool, in_opt: bool, out: &mut Vec<Site>) {
    out.push(Site { path: path.clone(), in_fold, in_optional: in_opt });
    for (i, it) in n.items.iter().enumerate() {
        if let QItem::Edge(e) = it {
            path.push(i);
            match &e.kind {
                EdgeKind::Plain | EdgeKind::Recurse(_) => collect_sites(&e.node, path, in_fold, in_opt, out),
                EdgeKind::Optional => collect_sites(&e.node, path, in_fold, true, out),
                EdgeKind::Fold(_) => collect_sites(&e.node, path, true, false, out),
            }
            path.pop();
        }
    }
}

fn sites(q: &QueryAst) -> Vec<Site> {
    let mut out = vec![];
    collect_sites(&q.root, &mut vec![], false, false, &mut out);
    out
}

fn has_any_tag(q: &QueryAst) -> bool {
    q.features().contains("tag") || q.features().contains("count_tag")
}

fn fresh_name(q: &QueryAst, prefix: &str) -> String {
    // names used by the generator are prefix+number; "x"-prefixed names are never generated
    let mut k = 0;
    loop {
        let n = format!("{prefix}x{k}");
        if !q.vars.iter().any(|v| v.name == n) {
            return n;
        }
        k += 1;
    }
}

fn rebuild(
    base: &Workload,
    world: Rc<World>,
    mut q: QueryAst,
    args: BTreeMap<String, FieldValue>,
) -> Result<Workload, String> {
    q.renumber();
    let (schema_text, schema) = if Rc::ptr_eq(&world, &base.world) {
        (base.schema_text.clone(), base.schema.clone())
    } else {
        // same schema text (parameter meanings live only in the data source)
        (base.schema_text.clone(), base.schema.clone())
    };
    match finish_workload(world, schema_text, schema, q, args) {
        Ok(w) => Ok(w),
        Err(BuildError::Discard(_, Some((_, qt)))) => Err(format!("transformed query rejected: {qt}")),
        Err(_) => Err("transformed query could not be built".into()),
    }
}

fn run(
    cx: &mut CaseBridge<'_, '_>,
    w: &Workload,
    cfg: SchedCfg,
    sched: &mut Tape,
) -> Result<ExecOutcome, HarnessError> {
    let mut o = ExecOpts::new(cfg);
    o.event_cap = cx.model.event_cap();
    let t = std::mem::replace(sched, Tape::replaying(vec![]));
    let e = exec(w, o, t);
    *sched = e.sched.clone();
    harness_check_pub(&e)?;
    cx.absorb(&e);
    Ok(e)
}

fn project(rows: &[Row], names: &[String]) -> Vec<Row> {
    rows.iter()
        .map(|r| r.iter().filter(|(k, _)| names.contains(k)).map(|(k, v)| (k.clone(), v.clone())).collect())
        .collect()
}

/// multiset inclusion a ⊆ b
fn included(a: &[Row], b: &[Row]) -> Option<String> {
    let ca = canon_rows(a);
    let cb = canon_rows(b);
    let (mut i, mut j) = (0, 0);
    while i < ca.len() {
        if j >= cb.len() {
            return Some(format!("row lost: {}", render_row(&ca[i].iter().cloned().collect())));
        }
        match cmp_row(&ca[i], &cb[j]) {
            std::cmp::Ordering::Equal => {
                i += 1;
                j += 1;
            }
            std::cmp::Ordering::Greater => j += 1,
            std::cmp::Ordering::Less => {
                return Some(format!("row lost: {}", render_row(&ca[i].iter().cloned().collect())));
            }
        }
    }
    None
}

fn ok(e: &ExecOutcome) -> bool {
    matches!(e.ending, Ending::Completed)
}

// ---------------------------------------------------------------------------------------------
// C22

fn fold_paths(q: &QueryAst) -> Vec<(Vec<usize>, usize)> {
    // (path to the parent node, item index of the fold edge)
    let mut out = vec![];
    for s in sites(q) {
        let n = node_at(&q.root, &s.path);
        for (i, it) in n.items.iter().enumerate() {
            if let QItem::Edge(e) = it {
                if matches!(e.kind, EdgeKind::Fold(_)) {
                    out.push((s.path.clone(), i));
                }
            }
        }
    }
    out
}

pub fn case_c22(cx: &mut CaseBridge<'_, '_>, sched: &mut Tape) -> Result<(), HarnessError> {
    let w = cx.w;
    let base = run(cx, w, SchedCfg::lazy(), sched)?;
    if matches!(base.ending, Ending::ArgsRejected(_)) {
        cx.stats.discarded = Some("args_rejected".into());
        return Ok(());
    }
    if !ok(&base) {
        cx.stats.inconclusive.push(format!("S0: {}", crate::checks::ending_name(&base)));
        return Ok(());
    }
    // (1) refinement against the full-materialisation model, under a random schedule
    let cfg = SchedCfg::draw(sched, false);
    let er = run(cx, w, cfg, sched)?;
    for (name, e) in [("S0", &base), ("random", &er)] {
        if ok(e) && cx.model.undefined.is_none() {
            if let Some(d) = rows_differ(&e.rows, &cx.model.rows, cx.model.nonforest) {
                cx.push(
                    "rows-differ-from-full-materialisation-model",
                    format!("[{name}] engine vs model: {d}"),
                    name,
                );
            }
        }
    }
    // (2) observation transforms, model-free
    let folds = fold_paths(&w.q);
    if folds.is_empty() {
        return Ok(());
    }
    let has_count_filter = w.q.features().contains("count_filter");
    if has_count_filter {
        cx.stats.probes.insert("c22_query_has_count_filter".into());
    }
    let orig_names: Vec<String> = {
        let mut v = vec![];
        crate::model::output_names(&w.q.root, "", &mut v);
        v
    };
    let (ppath, idx) = folds[sched.draw(folds.len() as u32) as usize].clone();
    for kind in 0..3 {
        let mut q = w.q.clone();
        let mut args = w.args.clone();
        let parent = node_at_mut(&mut q.root, &ppath);
        let parent_ty = parent.eff_ty();
        let label;
        {
            let QItem::Edge(e) = &mut parent.items[idx] else { unreachable!() };
            let EdgeKind::Fold(fs) = &mut e.kind else { unreachable!() };
            match kind {
                0 => {
                    label = "add-count-output";
                    fs.transform_count = true;
                    fs.count_outputs.push(Some("obs_count".to_string()));
                }
                1 => {
                    label = "add-output-inside-fold";
                    e.node.items.push(QItem::Prop(QProp {
                        name: "__typename".into(),
                        alias: None,
                        ty: Ty::named(Base::Str, false),
                        outputs: vec![Some("obs_inner".to_string())],
                        tags: vec![],
                        filters: vec![],
                    }));
                }
                _ => {
                    label = "add-count-tag-and-use";
                    fs.transform_count = true;
                    fs.count_tags.push("obs_tag".to_string());
                }
            }
        }
        if kind == 2 {
            // a use of the tag that cannot influence results: a filter inside a new, unobserved
            // fold appended after the tagged one
            let mut added = false;
            for ed in w.world.schema.types[parent_ty].edges.clone() {
                let Some(p) = w.world.schema.types[ed.target]
                    .props
                    .iter()
                    .find(|p| matches!(p.ty, Ty::Named(Base::Int, _)))
                    .cloned()
                else {
                    continue;
                };
                let mut params = BTreeMap::new();
                for pd in &ed.params {
                    if pd.default.is_none() && !pd.ty.nullable() {
                        params.insert(pd.name.clone(), gen_fv(&pd.ty, sched));
                    }
                }
                let node = QNode {
                    static_ty: ed.target,
                    coerce_to: None,
                    vid: 0,
                    items: vec![QItem::Prop(QProp {
                        name: p.name.clone(),
                        alias: None,
                        ty: p.ty.clone(),
                        outputs: vec![],
                        tags: vec![],
                        filters: vec![QFilter { op: Op::Ge, operand: Operand::Tag("obs_tag".into()) }],
                    })],
                };
                let parent = node_at_mut(&mut q.root, &ppath);
                parent.items.push(QItem::Edge(QEdge {
                    name: ed.name.clone(),
                    alias: None,
                    params,
                    kind: EdgeKind::Fold(FoldSpec::default()),
                    node,
                }));
                added = true;
                break;
            }
            if !added {
                continue;
            }
        }
        let _ = &mut args;
        let w2 = match rebuild(w, w.world.clone(), q, args) {
            Ok(w2) => w2,
            Err(m) => {
                cx.stats.inconclusive.push(format!("{label}: {}", m.lines().next().unwrap_or("")));
                continue;
            }
        };
        let cfg = SchedCfg::draw(sched, false);
        let e2 = run(cx, &w2, cfg, sched)?;
        match &e2.ending {
            Ending::Completed => {
                cx.stats.probes.insert(format!("c22_transform_{label}"));
                let projected = project(&e2.rows, &orig_names);
                if let Some(d) = rows_differ(&base.rows, &projected, false) {
                    cx.push(
                        "observing-the-fold-changed-other-outputs-or-rows",
                        format!("[{label}] original vs observed query: {d}\n--- observed query:\n{}", w2.query_text),
                        label,
                    );
                }
            }
            Ending::Panic(info) => cx.violations.push(Violation {
                property: cx.prop.to_string(),
                class: "panic-after-observation-transform".into(),
                detail: format!("[{label}] panicked at {}: {}", info.location, info.message.lines().next().unwrap_or("")),
                fingerprint: info.fingerprint(),
            }),
            _ => {}
        }
    }
    Ok(())
}

// ---------------------------------------------------------------------------------------------
// C23

fn filter_ops_for(ty: &Ty) -> Vec<Op> {
    let mut ops = vec![Op::Eq, Op::Ne, Op::OneOf, Op::NotOneOf];
    if ty.nullable() {
        ops.extend([Op::IsNull, Op::IsNotNull]);
    }
    if !ty.is_list() && matches!(ty.base(), Base::Int | Base::Float | Base::Str) {
        ops.extend([Op::Lt, Op::Le, Op::Gt, Op::Ge]);
    }
    if ty.is_list() {
        ops.extend([Op::Contains, Op::NotContains]);
    }
    if matches!(ty, Ty::Named(Base::Str, _)) {
        ops.extend([Op::HasPrefix, Op::HasSuffix, Op::HasSubstring, Op::Regex, Op::NotHasPrefix, Op::NotRegex]);
    }
    ops
}

fn var_type_for(op: Op, subject: &Ty) -> Ty {
    match op {
        Op::Eq | Op::Ne => subject.clone(),
        Op::Lt | Op::Le | Op::Gt | Op::Ge => subject.with_nullable(false),
        Op::Contains | Op::NotContains => subject.elem().unwrap().clone(),
        Op::OneOf | Op::NotOneOf => Ty::list(subject.clone(), false),
        _ => Ty::named(Base::Str, false),
    }
}

/// Property selections (node path, item index) satisfying a predicate on their site.
fn prop_sites(q: &QueryAst, pred: impl Fn(&Site) -> bool) -> Vec<(Vec<usize>, usize)> {
    let mut out = vec![];
    for s in sites(q) {
        if !pred(&s) {
            continue;
        }
        let n = node_at(&q.root, &s.path);
        for (i, it) in n.items.iter().enumerate() {
            if matches!(it, QItem::Prop(_)) {
                out.push((s.path.clone(), i));
            }
        }
    }
    out
}

fn edge_sites(q: &QueryAst, pred: impl Fn(&Site, &QEdge) -> bool) -> Vec<(Vec<usize>, usize)> {
    let mut out = vec![];
    for s in sites(q) {
        let n = node_at(&q.root, &s.path);
        for (i, it) in n.items.iter().enumerate() {
            if let QItem::Edge(e) = it {
                if pred(&s, e) {
                    out.push((s.path.clone(), i));
                }
            }
        }
    }
    out
}

const COUNT_ARGS: [i128; 10] = [0, 1, 2, 3, 1, 2, 4, -1, (i64::MAX as i128) + 1, 0];

fn gen_count_arg(op: Op, t: &mut Tape) -> (Ty, FieldValue) {
    let int_nn = Ty::named(Base::Int, false);
    let mut one = |t: &mut Tape| {
        let v = COUNT_ARGS[t.draw(COUNT_ARGS.len() as u32) as usize];
        crate::world::int_fv(v, v > i64::MAX as i128)
    };
    match op {
        Op::OneOf | Op::NotOneOf => {
            let n = t.draw(4);
            let items: Vec<FieldValue> = (0..n).map(|_| one(t)).collect();
            (Ty::list(int_nn, false), FieldValue::List(items.into()))
        }
        _ => (int_nn, one(t)),
    }
}

/// Fold edges (parent node path, item index) whose count filters live in the component of a
/// site satisfying `pred` (the site is the fold's *origin* vertex).
fn fold_edge_sites(q: &QueryAst, pred: impl Fn(&Site) -> bool) -> Vec<(Vec<usize>, usize)> {
    edge_sites(q, |s, e| pred(s) && matches!(e.kind, EdgeKind::Fold(_)))
}

fn fold_spec_mut<'a>(q: &'a mut QueryAst, path: &[usize], idx: usize) -> Option<&'a mut FoldSpec> {
    let n = node_at_mut(&mut q.root, path);
    match &mut n.items[idx] {
        QItem::Edge(e) => match &mut e.kind {
            EdgeKind::Fold(fs) => Some(fs),
            _ => None,
        },
        _ => None,
    }
}

enum Relation {
    /// rows(transformed) ⊆ rows(original)
    NewSubsetOfOld,
    /// rows(original) ⊆ rows(transformed)
    OldSubsetOfNew,
    SameMultiset,
    /// same multiset of rows once every fold's element order is canonicalised: reordering
    /// selections inside a fold legitimately changes the order in which its elements are produced
    SameMultisetModuloFoldElementOrder,
    SameSequenceUpToRenaming(BTreeMap<String, String>),
    /// rows(t1) ⊎ rows(t2) == rows(original)
    Partition(Box<Workload>),
}

pub fn case_c23(cx: &mut CaseBridge<'_, '_>, sched: &mut Tape) -> Result<(), HarnessError> {
    let w = cx.w;
    // try relations in a tape-chosen rotation until one is applicable
    let start = sched.draw(8);
    let mut chosen: Option<(&'static str, Workload, Relation, Option<Workload>)> = None;
    for k in 0..8 {
        let which = (start + k) % 8;
        if let Some(x) = build_relation(which, w, sched) {
            chosen = Some(x);
            break;
        }
    }
    let Some((label, w2, relation, orig_override)) = chosen else {
        cx.stats.discarded = Some("no_transformation_applicable".into());
        return Ok(());
    };
    let w_orig: &Workload = orig_override.as_ref().unwrap_or(w);
    cx.stats.probes.insert(format!("c23_{label}"));
    let cfg_a = SchedCfg::draw(sched, true);
    let ea = run(cx, w_orig, cfg_a, sched)?;
    if matches!(ea.ending, Ending::ArgsRejected(_)) {
        cx.stats.discarded = Some("args_rejected".into());
        return Ok(());
    }
    let cfg_b = SchedCfg::draw(sched, true);
    let eb = run(cx, &w2, cfg_b, sched)?;
    if !ok(&ea) || !ok(&eb) {
        cx.stats.inconclusive.push(format!(
            "{label}: {} / {}",
            crate::checks::ending_name(&ea),
            crate::checks::ending_name(&eb)
        ));
        return Ok(());
    }
    let fail = match &relation {
        Relation::NewSubsetOfOld => included(&eb.rows, &ea.rows).map(|d| format!("transformed query has a row the original lacks: {d}")),
        Relation::OldSubsetOfNew => included(&ea.rows, &eb.rows).map(|d| format!("original row missing after the transformation: {d}")),
        Relation::SameMultiset => rows_differ(&ea.rows, &eb.rows, false),
        Relation::SameMultisetModuloFoldElementOrder => {
            let mut ra = ea.rows.clone();
            let mut rb = eb.rows.clone();
            for r in ra.iter_mut() {
                crate::model::canon_fold_lists(&w_orig.q.root, "", r);
            }
            for r in rb.iter_mut() {
                crate::model::canon_fold_lists(&w2.q.root, "", r);
            }
            rows_differ(&ra, &rb, false)
        }
        Relation::SameSequenceUpToRenaming(map) => {
            let renamed: Vec<Row> = ea
                .rows
                .iter()
                .map(|r| r.iter().map(|(k, v)| (map.get(k).cloned().unwrap_or(k.clone()), v.clone())).collect())
                .collect();
            rows_differ(&renamed, &eb.rows, false)
        }
        Relation::Partition(wneg) => {
            let cfg_c = SchedCfg::draw(sched, true);
            let ec = run(cx, wneg, cfg_c, sched)?;
            if !ok(&ec) {
                cx.stats.inconclusive.push(format!("{label}: negated run {}", crate::checks::ending_name(&ec)));
                None
            } else {
                // here `ea` is the unfiltered query, `eb` the filtered one, `ec` the negated one
                let mut both = eb.rows.clone();
                both.extend(ec.rows.iter().cloned());
                rows_differ(&ea.rows, &both, false)
            }
        }
    };
    if let Some(d) = fail {
        cx.push(
            "metamorphic-relation-violated",
            format!(
                "[{label}] {d}\n--- original:\n{}--- transformed:\n{}",
                w_orig.query_text, w2.query_text
            ),
            label,
        );
    }
    Ok(())
}

fn build_relation(
    which: u32,
    w: &Workload,
    t: &mut Tape,
) -> Option<(&'static str, Workload, Relation, Option<Workload>)> {
    match which {
        // 0. adding a filter never adds rows (site in the root component)
        0 => {
            // variant: a new filter on the count of a fold that hangs off a root-component
            // vertex (it can only drop root rows; a nonexistent fold passes it)
            let fcands = fold_edge_sites(&w.q, |s| !s.in_fold);
            if !fcands.is_empty() && t.draw(2) == 0 {
                let (path, idx) = fcands[t.draw(fcands.len() as u32) as usize].clone();
                let mut q = w.q.clone();
                let mut args = w.args.clone();
                let vname = fresh_name(&q, "v");
                let ops = [Op::Eq, Op::Ne, Op::Lt, Op::Le, Op::Gt, Op::Ge, Op::OneOf, Op::NotOneOf];
                let op = ops[t.draw(ops.len() as u32) as usize];
                let (vty, val) = gen_count_arg(op, t);
                let fs = fold_spec_mut(&mut q, &path, idx)?;
                fs.transform_count = true;
                fs.count_filters.push(QFilter { op, operand: Operand::Var(vname.clone()) });
                args.insert(vname.clone(), val);
                q.vars.push(VarInfo { name: vname, ty: vty, regex: false, count: true });
                let w2 = rebuild(w, w.world.clone(), q, args).ok()?;
                return Some(("add-count-filter", w2, Relation::NewSubsetOfOld, None));
            }
            let cands = prop_sites(&w.q, |s| !s.in_fold);
            if cands.is_empty() {
                return None;
            }
            let (path, idx) = cands[t.draw(cands.len() as u32) as usize].clone();
            let mut q = w.q.clone();
            let mut args = w.args.clone();
            let vname = fresh_name(&q, "v");
            let n = node_at_mut(&mut q.root, &path);
            let QItem::Prop(p) = &mut n.items[idx] else { return None };
            let ops = filter_ops_for(&p.ty);
            let op = ops[t.draw(ops.len() as u32) as usize];
            if op.unary() {
                p.filters.push(QFilter { op, operand: Operand::None });
            } else {
                let vty = var_type_for(op, &p.ty);
                args.insert(vname.clone(), gen_fv(&vty, t));
                p.filters.push(QFilter { op, operand: Operand::Var(vname.clone()) });
                q.vars.push(VarInfo { name: vname, ty: vty, regex: false, count: false });
            }
            let w2 = rebuild(w, w.world.clone(), q, args).ok()?;
            Some(("add-filter", w2, Relation::NewSubsetOfOld, None))
        }
        // 1. raising a recursion depth never removes rows (root component)
        1 => {
            let cands = edge_sites(&w.q, |s, e| !s.in_fold && matches!(e.kind, EdgeKind::Recurse(_)));
            if cands.is_empty() {
                return None;
            }
            let (path, idx) = cands[t.draw(cands.len() as u32) as usize].clone();
            let mut q = w.q.clone();
            let n = node_at_mut(&mut q.root, &path);
            let QItem::Edge(e) = &mut n.items[idx] else { return None };
            if let EdgeKind::Recurse(d) = &mut e.kind {
                *d += 1;
            }
            let w2 = rebuild(w, w.world.clone(), q, w.args.clone()).ok()?;
            Some(("raise-recursion-depth", w2, Relation::OldSubsetOfNew, None))
        }
        // 2. making an edge @optional keeps all previous rows (root component)
        2 => {
            let cands = edge_sites(&w.q, |s, e| !s.in_fold && matches!(e.kind, EdgeKind::Plain));
            if cands.is_empty() {
                return None;
            }
            let (path, idx) = cands[t.draw(cands.len() as u32) as usize].clone();
            let mut q = w.q.clone();
            let n = node_at_mut(&mut q.root, &path);
            let QItem::Edge(e) = &mut n.items[idx] else { return None };
            e.kind = EdgeKind::Optional;
            let w2 = rebuild(w, w.world.clone(), q, w.args.clone()).ok()?;
            Some(("make-edge-optional", w2, Relation::OldSubsetOfNew, None))
        }
        // 3. parameterised edge == the equivalent filter (edge without @optional / @recurse)
        3 => {
            let world = &w.world;
            let cands: Vec<(Vec<usize>, usize, String)> = {
                let mut out = vec![];
                for s in sites(&w.q) {
                    let n = node_at(&w.q.root, &s.path);
                    for (i, it) in n.items.iter().enumerate() {
                        if let QItem::Edge(e) = it {
                            if !matches!(e.kind, EdgeKind::Plain | EdgeKind::Fold(_)) {
                                continue;
                            }
                            if e.node.coerce_to.is_some() {
                                continue;
                            }
                            let Some(def) = world.schema.edge(n.eff_ty(), &e.name) else { continue };
                            // the transformed run's data source ignores the parameter on every
                            // use of this edge, so the edge must be used exactly once
                            if edge_uses(&w.q.root, &e.name) != 1 {
                                continue;
                            }
                            for pd in &def.params {
                                if matches!(pd.meaning, ParamMeaning::EqProp(_) | ParamMeaning::MinProp(_)) {
                                    out.push((s.path.clone(), i, pd.name.clone()));
                                }
                            }
                        }
                    }
                }
                out
            };
            if cands.is_empty() {
                return None;
            }
            let (path, idx, pname) = cands[t.draw(cands.len() as u32) as usize].clone();
            let n = node_at(&w.q.root, &path);
            let QItem::Edge(e) = &n.items[idx] else { return None };
            let def = world.schema.edge(n.eff_ty(), &e.name)?.clone();
            let pd = def.params.iter().find(|p| p.name == pname)?.clone();
            let value = match e.params.get(&pname) {
                Some(v) => v.clone(),
                None => pd.default.clone().unwrap_or(FieldValue::Null),
            };
            let (prop, op) = match &pd.meaning {
                ParamMeaning::EqProp(p) => (p.clone(), Op::Eq),
                ParamMeaning::MinProp(p) => (p.clone(), Op::Ge),
                _ => return None,
            };
            let pty = world.schema.prop(def.target, &prop)?.ty.clone();
            let vty = var_type_for(op, &pty);
            if !vty.admits(&Val::from_fv(&value)) {
                return None;
            }
            // The data source of the transformed run ignores this parameter on this edge for
            // every type that has the edge; the query filters on the property instead.
            let mut world2: World = (**world).clone();
            for td in world2.schema.types.iter_mut() {
                for ed in td.edges.iter_mut() {
                    if ed.name == def.name {
                        for p in ed.params.iter_mut() {
                            if p.name == pname {
                                p.meaning = ParamMeaning::Ignored;
                            }
                        }
                    }
                }
            }
            let mut q = w.q.clone();
            let mut args = w.args.clone();
            let vname = fresh_name(&q, "v");
            args.insert(vname.clone(), value);
            q.vars.push(VarInfo { name: vname.clone(), ty: vty, regex: false, count: false });
            let n2 = node_at_mut(&mut q.root, &path);
            let QItem::Edge(e2) = &mut n2.items[idx] else { return None };
            e2.node.items.insert(
                0,
                QItem::Prop(QProp {
                    name: prop,
                    alias: None,
                    ty: pty,
                    outputs: vec![],
                    tags: vec![],
                    filters: vec![QFilter { op, operand: Operand::Var(vname) }],
                }),
            );
            let w2 = rebuild(w, Rc::new(world2), q, args).ok()?;
            Some(("parameterized-edge-as-filter", w2, Relation::SameMultiset, None))
        }
        // 4. `=` and one_of with a single-element list agree
        4 => {
            // variant: `=` on a fold count (any component: it is an equivalence)
            let mut ccands = vec![];
            for (path, idx) in fold_edge_sites(&w.q, |_| true) {
                let n = node_at(&w.q.root, &path);
                if let QItem::Edge(e) = &n.items[idx] {
                    if let EdgeKind::Fold(fs) = &e.kind {
                        for (fi, f) in fs.count_filters.iter().enumerate() {
                            if f.op == Op::Eq && matches!(f.operand, Operand::Var(_)) {
                                ccands.push((path.clone(), idx, fi));
                            }
                        }
                    }
                }
            }
            if !ccands.is_empty() && t.draw(2) == 0 {
                let (path, idx, fi) = ccands[t.draw(ccands.len() as u32) as usize].clone();
                let mut q = w.q.clone();
                let mut args = w.args.clone();
                let vname = fresh_name(&q, "v");
                let fs = fold_spec_mut(&mut q, &path, idx)?;
                let Operand::Var(old) = fs.count_filters[fi].operand.clone() else { return None };
                let oldv = args.get(&old)?.clone();
                fs.count_filters[fi] = QFilter { op: Op::OneOf, operand: Operand::Var(vname.clone()) };
                args.insert(vname.clone(), FieldValue::List(vec![oldv].into()));
                q.vars.push(VarInfo { name: vname, ty: Ty::list(Ty::named(Base::Int, false), false), regex: false, count: true });
                if !var_used(&q.root, &old) {
                    args.remove(&old);
                    q.vars.retain(|v| v.name != old);
                }
                let w2 = rebuild(w, w.world.clone(), q, args).ok()?;
                return Some(("count-equals-as-one-of", w2, Relation::SameMultiset, None));
            }
            let mut cands = vec![];
            for s in sites(&w.q) {
                let n = node_at(&w.q.root, &s.path);
                for (i, it) in n.items.iter().enumerate() {
                    if let QItem::Prop(p) = it {
                        for (fi, f) in p.filters.iter().enumerate() {
                            if f.op == Op::Eq && matches!(f.operand, Operand::Var(_)) {
                                cands.push((s.path.clone(), i, fi));
                            }
                        }
                    }
                }
            }
            if cands.is_empty() {
                return None;
            }
            let (path, idx, fi) = cands[t.draw(cands.len() as u32) as usize].clone();
            let mut q = w.q.clone();
            let mut args = w.args.clone();
            let vname = fresh_name(&q, "v");
            let n = node_at_mut(&mut q.root, &path);
            let QItem::Prop(p) = &mut n.items[idx] else { return None };
            let Operand::Var(old) = p.filters[fi].operand.clone() else { return None };
            let oldv = args.get(&old)?.clone();
            args.insert(vname.clone(), FieldValue::List(vec![oldv].into()));
            let vty = Ty::list(p.ty.clone(), false);
            p.filters[fi] = QFilter { op: Op::OneOf, operand: Operand::Var(vname.clone()) };
            q.vars.push(VarInfo { name: vname, ty: vty, regex: false, count: false });
            // the old variable may now be unused
            if !var_used(&q.root, &old) {
                args.remove(&old);
                q.vars.retain(|v| v.name != old);
            }
            let w2 = rebuild(w, w.world.clone(), q, args).ok()?;
            Some(("equals-as-one-of", w2, Relation::SameMultiset, None))
        }
        // 5. a filter and its negation partition the rows (outside optional scopes, root component)
        5 => {
            // variant: a count filter of a fold whose origin vertex is in the root component and
            // outside every optional scope, and its exact negation
            let mut ccands = vec![];
            for (path, idx) in fold_edge_sites(&w.q, |s| !s.in_fold && !s.in_optional) {
                let n = node_at(&w.q.root, &path);
                if let QItem::Edge(e) = &n.items[idx] {
                    if let EdgeKind::Fold(fs) = &e.kind {
                        for (fi, f) in fs.count_filters.iter().enumerate() {
                            // a count is never null and the variable is `Int!` / `[Int!]!`, so on
                            // counts the ordering operators are exact complements as well
                            if matches!(f.operand, Operand::Var(_)) {
                                ccands.push((path.clone(), idx, fi));
                            }
                        }
                    }
                }
            }
            if !ccands.is_empty() && t.draw(2) == 0 {
                let (path, idx, fi) = ccands[t.draw(ccands.len() as u32) as usize].clone();
                let mut q0 = w.q.clone();
                let mut args0 = w.args.clone();
                {
                    let fs = fold_spec_mut(&mut q0, &path, idx)?;
                    let f = fs.count_filters.remove(fi);
                    if let Operand::Var(v) = f.operand {
                        if !var_used(&q0.root, &v) {
                            args0.remove(&v);
                            q0.vars.retain(|x| x.name != v);
                        }
                    }
                }
                let mut qn = w.q.clone();
                {
                    let fs = fold_spec_mut(&mut qn, &path, idx)?;
                    fs.count_filters[fi].op = fs.count_filters[fi].op.negation();
                }
                let w0 = rebuild(w, w.world.clone(), q0, args0).ok()?;
                let wn = rebuild(w, w.world.clone(), qn, w.args.clone()).ok()?;
                let wf = rebuild(w, w.world.clone(), w.q.clone(), w.args.clone()).ok()?;
                return Some(("count-filter-and-negation-partition", wf, Relation::Partition(Box::new(wn)), Some(w0)));
            }
            let mut cands = vec![];
            for s in sites(&w.q) {
                if s.in_fold || s.in_optional {
                    continue;
                }
                let n = node_at(&w.q.root, &s.path);
                for (i, it) in n.items.iter().enumerate() {
                    if let QItem::Prop(p) = it {
                        for (fi, f) in p.filters.iter().enumerate() {
                            if f.op.has_exact_complement() && !matches!(f.operand, Operand::Tag(_)) {
                                cands.push((s.path.clone(), i, fi));
                            }
                        }
                    }
                }
            }
            if cands.is_empty() {
                return None;
            }
            let (path, idx, fi) = cands[t.draw(cands.len() as u32) as usize].clone();
            // unfiltered
            let mut q0 = w.q.clone();
            let mut args0 = w.args.clone();
            {
                let n = node_at_mut(&mut q0.root, &path);
                let QItem::Prop(p) = &mut n.items[idx] else { return None };
                let f = p.filters.remove(fi);
                if let Operand::Var(v) = f.operand {
                    if !var_used(&q0.root, &v) {
                        args0.remove(&v);
                        q0.vars.retain(|x| x.name != v);
                    }
                }
            }
            // negated
            let mut qn = w.q.clone();
            {
                let n = node_at_mut(&mut qn.root, &path);
                let QItem::Prop(p) = &mut n.items[idx] else { return None };
                p.filters[fi].op = p.filters[fi].op.negation();
            }
            let w0 = rebuild(w, w.world.clone(), q0, args0).ok()?;
            let wn = rebuild(w, w.world.clone(), qn, w.args.clone()).ok()?;
            let wf = rebuild(w, w.world.clone(), w.q.clone(), w.args.clone()).ok()?;
            // original := unfiltered; transformed := filtered; third := negated
            Some(("filter-and-negation-partition", wf, Relation::Partition(Box::new(wn)), Some(w0)))
        }
        // 6. renaming outputs and tags changes no row contents
        6 => {
            let mut q = w.q.clone();
            let mut map = BTreeMap::new();
            fn go(n: &mut QNode, map: &mut BTreeMap<String, String>) {
                for it in n.items.iter_mut() {
                    match it {
                        QItem::Prop(p) => {
                            for o in p.outputs.iter_mut().flatten() {
                                let nn = format!("ren_{o}");
                                map.insert(o.clone(), nn.clone());
                                *o = nn;
                            }
                            for tg in p.tags.iter_mut().flatten() {
                                *tg = format!("ren_{tg}");
                            }
                            for f in p.filters.iter_mut() {
                                if let Operand::Tag(tn) = &mut f.operand {
                                    *tn = format!("ren_{tn}");
                                }
                            }
                        }
                        QItem::Edge(e) => {
                            if let EdgeKind::Fold(fs) = &mut e.kind {
                                for o in fs.count_outputs.iter_mut().flatten() {
                                    let nn = format!("ren_{o}");
                                    map.insert(o.clone(), nn.clone());
                                    *o = nn;
                                }
                                for tg in fs.count_tags.iter_mut() {
                                    *tg = format!("ren_{tg}");
                                }
                                for f in fs.count_filters.iter_mut() {
                                    if let Operand::Tag(tn) = &mut f.operand {
                                        *tn = format!("ren_{tn}");
                                    }
                                }
                            }
                            go(&mut e.node, map);
                        }
                    }
                }
            }
            go(&mut q.root, &mut map);
            if map.is_empty() && !has_any_tag(&w.q) {
                return None;
            }
            let w2 = rebuild(w, w.world.clone(), q, w.args.clone()).ok()?;
            Some(("rename-outputs-and-tags", w2, Relation::SameSequenceUpToRenaming(map), None))
        }
        // 7. reordering sibling selections (no crossing tag dependency) changes no row contents
        _ => {
            let no_tags = !has_any_tag(&w.q);
            let mut cands = vec![];
            for s in sites(&w.q) {
                let n = node_at(&w.q.root, &s.path);
                for i in 0..n.items.len().saturating_sub(1) {
                    let both_props = matches!(n.items[i], QItem::Prop(_)) && matches!(n.items[i + 1], QItem::Prop(_));
                    // swapping two property selections never moves a vertex; with no tags in the
                    // query any two siblings may be swapped
                    let implicit_names_stable = true;
                    if (both_props || no_tags) && implicit_names_stable {
                        cands.push((s.path.clone(), i));
                    }
                }
            }
            if cands.is_empty() {
                return None;
            }
            let (path, i) = cands[t.draw(cands.len() as u32) as usize].clone();
            let mut q = w.q.clone();
            let n = node_at_mut(&mut q.root, &path);
            n.items.swap(i, i + 1);
            let w2 = rebuild(w, w.world.clone(), q, w.args.clone()).ok()?;
            Some(("reorder-sibling-selections", w2, Relation::SameMultisetModuloFoldElementOrder, None))
        }
    }
}

fn edge_uses(n: &QNode, name: &str) -> usize {
    n.items
        .iter()
        .map(|it| match it {
            QItem::Edge(e) => (e.name == name) as usize + edge_uses(&e.node, name),
            _ => 0,
        })
        .sum()
}

fn var_used(n: &QNode, name: &str) -> bool {
    for it in &n.items {
        match it {
            QItem::Prop(p) => {
                if p.filters.iter().any(|f| matches!(&f.operand, Operand::Var(v) if v == name)) {
                    return true;
                }
            }
            QItem::Edge(e) => {
                if let EdgeKind::Fold(fs) = &e.kind {
                    if fs.count_filters.iter().any(|f| matches!(&f.operand, Operand::Var(v) if v == name)) {
                        return true;
                    }
                }
                if var_used(&e.node, name) {
                    return true;
                }
            }
        }
    }
    false
}
