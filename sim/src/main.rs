#![allow(dead_code)]
mod adapter;
mod basic;
mod checks;
mod driver;
mod faulty;
mod hashsim;
mod introspect;
mod model;
mod qast;
mod runner;
mod tape;
mod trace;
mod transforms;
mod val;
mod world;

fn main() {
    let args: Vec<String> = std::env::args().collect();
    let code = driver::main(&args[1..]);
    std::process::exit(code);
}
