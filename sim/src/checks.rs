//! Per-property simulated checks (tfsim engine): workload + schedule/fault space + oracle.

use std::collections::BTreeSet;

use crate::adapter::{Fires, SchedCfg};
use crate::model::{ModelResult, render_row, rows_differ};
use crate::runner::{
    BuildError, Consumer, Discard, Ending, ExecOpts, ExecOutcome, Workload, build_workload,
    check_rows_c13, exec, exec_interleaved,
};
use crate::tape::{Tapes, fnv1a, mix};

#[derive(Clone, Debug)]
pub struct Violation {
    pub property: String,
    pub class: String,
    pub detail: String,
    pub fingerprint: String,
}

#[derive(Clone, Debug, Default)]
pub struct CaseStats {
    pub discarded: Option<String>,
    pub rows: usize,
    pub events: u64,
    pub execs: u32,
    pub fires: Fires,
    pub probes: BTreeSet<String>,
    pub features: BTreeSet<&'static str>,
    pub nontrivial: bool,
    pub case_digest: u64,
    pub inconclusive: Vec<String>,
    pub sample: Option<serde_json::Value>,
    pub model_undefined: bool,
    pub model_nonforest: bool,
}

pub struct CaseResult {
    pub violations: Vec<Violation>,
    pub stats: CaseStats,
}

pub struct HarnessError(pub String);

pub const TFSIM_PROPS: [&str; 11] =
    ["C01", "C02", "C03", "C04", "C05", "C09", "C13", "C21", "C22", "C23", "C15"];

fn panic_violation(prop: &str, cfg_name: &str, e: &ExecOutcome) -> Option<Violation> {
    match &e.ending {
        Ending::Panic(info) => Some(Violation {
            property: prop.to_string(),
            class: "engine-panic".to_string(),
            detail: format!("[{cfg_name}] panicked at {}: {}", info.location, first_line(&info.message)),
            fingerprint: info.fingerprint(),
        }),
        Ending::EventCap => Some(Violation {
            property: prop.to_string(),
            class: "no-progress-within-event-cap".to_string(),
            detail: format!("[{cfg_name}] exceeded the event cap after {} rows", e.rows.len()),
            fingerprint: "no-progress".to_string(),
        }),
        _ => None,
    }
}

fn first_line(s: &str) -> String {
    let l = s.lines().next().unwrap_or("");
    if l.len() > 300 { format!("{}…", &l[..300]) } else { l.to_string() }
}

fn harness_check(e: &ExecOutcome) -> Result<(), HarnessError> {
    if let Ending::HarnessBug(m) = &e.ending {
        return Err(HarnessError(format!("harness self-check: {m}")));
    }
    Ok(())
}

fn feature_sig(w: &Workload) -> String {
    w.q.features().into_iter().collect::<Vec<_>>().join(",")
}

fn seq_differs(a: &[crate::model::Row], b: &[crate::model::Row]) -> Option<String> {
    for (i, (x, y)) in a.iter().zip(b.iter()).enumerate() {
        let same = x.len() == y.len()
            && x.iter().zip(y.iter()).all(|((k1, v1), (k2, v2))| k1 == k2 && v1.same(v2));
        if !same {
            return Some(format!("row {i}: {} vs {}", render_row(x), render_row(y)));
        }
    }
    if a.len() != b.len() {
        return Some(format!("{} rows vs {} rows", a.len(), b.len()));
    }
    None
}

fn completed(e: &ExecOutcome) -> bool {
    matches!(e.ending, Ending::Completed)
}

struct Ctx<'a> {
    prop: &'a str,
    w: &'a Workload,
    model: &'a ModelResult,
    violations: Vec<Violation>,
    stats: CaseStats,
    sched_digest: u64,
}

impl<'a> Ctx<'a> {
    fn absorb(&mut self, e: &ExecOutcome) {
        self.stats.execs += 1;
        self.stats.events += e.events;
        self.stats.fires.add(&e.fires);
        self.sched_digest = mix(self.sched_digest, e.digest);
    }
    fn push(&mut self, class: &str, detail: String, fp_extra: &str) {
        let fingerprint = format!("{class}|{fp_extra}|features={}", feature_sig(self.w));
        self.violations.push(Violation {
            property: self.prop.to_string(),
            class: class.to_string(),
            detail,
            fingerprint,
        });
    }
    fn monitor(&mut self, e: &ExecOutcome, cfg_name: &str) {
        for v in &e.violations {
            if v.property == self.prop {
                let fingerprint = format!("{}|features={}", v.class, feature_sig(self.w));
                self.violations.push(Violation {
                    property: self.prop.to_string(),
                    class: v.class.clone(),
                    detail: format!("[{cfg_name}] {}", v.detail),
                    fingerprint,
                });
            }
        }
    }
}

pub fn run_case(prop: &str, tapes: &mut Tapes) -> Result<CaseResult, HarnessError> {
    if prop == "C25" {
        return crate::faulty::case_c25(tapes);
    }
    if prop == "C20" {
        return crate::introspect::case_c20(tapes);
    }
    // C04, C23: a quarter of the cases use the fold-count workload (C04: mandatory-edge
    // classification of folds depends on count filters; C23: relations over count filters).
    let bias = prop == "C22" || ((prop == "C04" || prop == "C23") && tapes.query.draw(4) == 0);
    // Tag interactions (tags into sibling folds, repeated uses, imported tags, dynamic hints):
    // half of the cases of these properties are biased toward many tags and tag operands.
    let bias_tags = crate::runner::wants_tag_bias(prop) && tapes.query.draw(2) == 1;
    // C09: in a fifth of the cases some argument values are deliberately outside what the
    // harness's typing of the variable admits; the engine decides whether to accept them.
    crate::runner::MANY_FILTERS.with(|m| m.set(prop == "C04"));
    let adversarial_args = prop == "C09" && tapes.args.draw(5) == 0;
    let w = match crate::runner::build_workload_full(tapes, bias, bias_tags, adversarial_args) {
        Ok(w) => w,
        Err(BuildError::SchemaRejected(text, err)) => {
            return Err(HarnessError(format!(
                "generated schema rejected by Schema::parse: {err}\n{text}"
            )));
        }
        Err(BuildError::Discard(d, _)) => {
            let mut stats = CaseStats::default();
            stats.discarded = Some(match d {
                Discard::FrontendRejected(e) => format!("frontend_rejected: {}", first_line(&e)),
                Discard::ArgsRejected(e) => format!("args_rejected: {}", first_line(&e)),
                Discard::ModelOverflow => "model_overflow".to_string(),
            });
            return Ok(CaseResult { violations: vec![], stats });
        }
        Err(BuildError::FrontendPanic(info, _, _)) => {
            let mut stats = CaseStats::default();
            stats.discarded = Some(format!("frontend_panic: {}", info.fingerprint()));
            return Ok(CaseResult { violations: vec![], stats });
        }
    };
    let model = w.model();
    if model.overflow {
        let mut stats = CaseStats::default();
        stats.discarded = Some("model_overflow".to_string());
        return Ok(CaseResult { violations: vec![], stats });
    }
    let mut cx = Ctx {
        prop,
        w: &w,
        model: &model,
        violations: vec![],
        stats: CaseStats::default(),
        sched_digest: 0,
    };
    cx.stats.features = w.q.features();
    cx.stats.probes = model.probes.iter().map(|s| s.to_string()).collect();
    cx.stats.model_undefined = model.undefined.is_some();
    cx.stats.model_nonforest = model.nonforest;
    cx.stats.rows = model.rows.len();

    // The sched tape is consumed by the executions one after the other.
    let mut sched = std::mem::replace(&mut tapes.sched, crate::tape::Tape::replaying(vec![]));

    macro_rules! run {
        ($opts:expr) => {{
            let mut o: ExecOpts = $opts;
            // Bounded liveness: with a finite data source the engine must finish within a
            // number of adapter events proportional to the work the model had to do.
            o.event_cap = model.event_cap();
            let e = exec(&w, o, sched);
            sched = e.sched.clone();
            harness_check(&e)?;
            cx.absorb(&e);
            e
        }};
    }

    macro_rules! run_basic {
        () => {{
            let chunk = match sched.draw(3) {
                0 => 0,
                1 => 3,
                _ => 16,
            };
            let e = crate::basic::exec_basic(&w, chunk, sched, model.event_cap());
            sched = e.sched.clone();
            if let Ending::HarnessBug(m) = &e.ending {
                return Err(HarnessError(format!("harness self-check (basic adapter): {m}")));
            }
            cx.stats.execs += 1;
            cx.stats.events += e.events;
            if e.chunked > 0 {
                cx.stats.probes.insert("basic_adapter_read_ahead".into());
            }
            cx.stats.probes.insert("basic_adapter_flavour_run".into());
            e
        }};
    }

    let args_rejected = |e: &ExecOutcome| matches!(e.ending, Ending::ArgsRejected(_));

    match prop {
        "C01" => {
            let e0 = run!(ExecOpts::new(SchedCfg::lazy()));
            if args_rejected(&e0) {
                cx.stats.discarded = Some("args_rejected".into());
            } else {
                let cfg1 = SchedCfg::draw(&mut sched, true);
                let e1 = run!(ExecOpts::new(cfg1));
                // Third execution: the same data source behind the repository's BasicAdapter
                // blanket impl and helper functions.
                let eb = run_basic!();
                if matches!(eb.ending, Ending::Completed) && model.undefined.is_none() {
                    if let Some(d) = rows_differ(&eb.rows, &model.rows, model.nonforest) {
                        cx.push(
                            "rows-differ-from-reference-model",
                            format!("[basic-adapter] engine vs model: {d}"),
                            "basic-adapter",
                        );
                    }
                }
                for (name, e) in [("S0", &e0), ("random+hints", &e1)] {
                    if !completed(e) {
                        cx.stats.inconclusive.push(format!("{name}: {:?}", ending_name(e)));
                        continue;
                    }
                    if model.undefined.is_some() {
                        continue;
                    }
                    if let Some(d) = rows_differ(&e.rows, &model.rows, model.nonforest) {
                        cx.push(
                            "rows-differ-from-reference-model",
                            format!("[{name}] engine vs model: {d}"),
                            name,
                        );
                    }
                }
            }
        }
        "C02" => {
            let e0 = run!(ExecOpts::new(SchedCfg::lazy()));
            if args_rejected(&e0) {
                cx.stats.discarded = Some("args_rejected".into());
            } else if !completed(&e0) {
                cx.stats.inconclusive.push(format!("S0: {}", ending_name(&e0)));
            } else {
                let reps = 3;
                for r in 0..reps {
                    let cfg = SchedCfg::draw(&mut sched, false);
                    let e = run!(ExecOpts::new(cfg));
                    let name = format!("random#{r}");
                    match &e.ending {
                        Ending::Completed => {
                            if let Some(d) = seq_differs(&e0.rows, &e.rows) {
                                cx.push(
                                    "row-sequence-differs-from-lazy-baseline",
                                    format!("[{name}] S0 vs scheduled: {d}"),
                                    "seq",
                                );
                            }
                        }
                        Ending::Panic(info) => {
                            let fp = info.fingerprint();
                            cx.violations.push(Violation {
                                property: prop.to_string(),
                                class: "panic-only-under-read-ahead".into(),
                                detail: format!(
                                    "[{name}] S0 completes with {} rows; with read-ahead the engine panicked at {}: {}",
                                    e0.rows.len(),
                                    info.location,
                                    first_line(&info.message)
                                ),
                                fingerprint: fp,
                            });
                        }
                        Ending::EventCap => cx.push(
                            "no-progress-only-under-read-ahead",
                            format!("[{name}] S0 completes; scheduled run exceeded the event cap"),
                            "cap",
                        ),
                        _ => {}
                    }
                }
                // BasicAdapter flavour (blanket impl + helpers), chunked read-ahead on its inputs.
                let eb = run_basic!();
                match &eb.ending {
                    Ending::Completed => {
                        if let Some(d) = seq_differs(&e0.rows, &eb.rows) {
                            cx.push(
                                "row-sequence-differs-from-lazy-baseline",
                                format!("[basic-adapter] S0 vs BasicAdapter flavour: {d}"),
                                "basic-seq",
                            );
                        }
                    }
                    Ending::Panic(info) => cx.violations.push(Violation {
                        property: prop.to_string(),
                        class: "panic-only-under-read-ahead".into(),
                        detail: format!(
                            "[basic-adapter] S0 completes with {} rows; through BasicAdapter the engine panicked at {}: {}",
                            e0.rows.len(),
                            info.location,
                            first_line(&info.message)
                        ),
                        fingerprint: info.fingerprint(),
                    }),
                    _ => {}
                }
                // F7: several live result iterators on one adapter.
                let cfg = if sched.draw(2) == 1 { SchedCfg::draw(&mut sched, false) } else { SchedCfg::lazy() };
                let n_streams = 2 + sched.draw(2) as usize;
                let io = exec_interleaved(&w, cfg, sched, n_streams, (model.event_cap()) * n_streams as u64);
                sched = io.sched.clone();
                if let Ending::HarnessBug(m) = &io.ending {
                    return Err(HarnessError(format!("harness self-check: {m}")));
                }
                cx.stats.execs += 1;
                cx.stats.fires.add(&io.fires);
                if io.switches >= 2 {
                    cx.stats.probes.insert("interleaved_streams_switched".into());
                }
                match &io.ending {
                    Ending::Completed => {
                        for (i, s) in io.streams.iter().enumerate() {
                            if let Some(d) = seq_differs(&e0.rows, s) {
                                cx.push(
                                    "interleaved-stream-differs-from-solo-run",
                                    format!("[interleaved stream {i} of {n_streams}] {d}"),
                                    "interleaved",
                                );
                                break;
                            }
                        }
                    }
                    Ending::Panic(info) => cx.violations.push(Violation {
                        property: prop.to_string(),
                        class: "panic-only-under-interleaving".into(),
                        detail: format!(
                            "[interleaved x{n_streams}] panicked at {}: {}",
                            info.location,
                            first_line(&info.message)
                        ),
                        fingerprint: info.fingerprint(),
                    }),
                    _ => {}
                }
                // F7b: two *different* compiled queries over the same world, live at the same
                // time on one adapter; each stream must equal its own solo lazy run.
                let mut qcfg2 = crate::qast::QueryCfg::draw(&mut tapes.query, false);
                qcfg2.max_vertices = qcfg2.max_vertices.min(5);
                let q2 = crate::qast::gen_query(&w.world, &mut tapes.query, qcfg2);
                let args2 = crate::qast::gen_args(&q2, &w.world, &mut tapes.args);
                let schema2 = trustfall_core::schema::Schema::parse(&w.schema_text)
                    .map_err(|e| HarnessError(format!("schema re-parse failed: {e}")))?;
                if let Ok(w2) = crate::runner::finish_workload(w.world.clone(), w.schema_text.clone(), schema2, q2, args2) {
                    let m2 = w2.model();
                    if !m2.overflow {
                        let mut o = ExecOpts::new(SchedCfg::lazy());
                        o.event_cap = m2.event_cap();
                        let s2 = exec(&w2, o, sched);
                        sched = s2.sched.clone();
                        harness_check(&s2)?;
                        cx.absorb(&s2);
                        if completed(&s2) {
                            let cfg = if sched.draw(2) == 1 { SchedCfg::draw(&mut sched, false) } else { SchedCfg::lazy() };
                            let order: Vec<&Workload> = if sched.draw(2) == 1 { vec![&w, &w2, &w] } else { vec![&w2, &w] };
                            let cap = (model.event_cap() + m2.event_cap()) * 2;
                            let io = crate::runner::exec_interleaved_multi(&order, cfg, sched, cap);
                            sched = io.sched.clone();
                            if let Ending::HarnessBug(m) = &io.ending {
                                return Err(HarnessError(format!("harness self-check: {m}")));
                            }
                            cx.stats.execs += 1;
                            cx.stats.fires.add(&io.fires);
                            if io.switches >= 2 {
                                cx.stats.probes.insert("interleaved_different_queries_switched".into());
                            }
                            match &io.ending {
                                Ending::Completed => {
                                    for (i, st) in io.streams.iter().enumerate() {
                                        let solo = if std::ptr::eq(order[i], &w) { &e0.rows } else { &s2.rows };
                                        if let Some(d) = seq_differs(solo, st) {
                                            cx.push(
                                                "interleaved-stream-differs-from-solo-run",
                                                format!("[different queries interleaved, stream {i} of {}] second query: {} | {d}", order.len(), w2.query_text.replace('\n', " ")),
                                                "interleaved-different",
                                            );
                                            break;
                                        }
                                    }
                                }
                                Ending::Panic(info) => cx.violations.push(Violation {
                                    property: prop.to_string(),
                                    class: "panic-only-under-interleaving".into(),
                                    detail: format!(
                                        "[different queries interleaved] panicked at {}: {}",
                                        info.location,
                                        first_line(&info.message)
                                    ),
                                    fingerprint: info.fingerprint(),
                                }),
                                _ => {}
                            }
                        }
                    }
                }
            }
        }
        "C03" => {
            let e0 = run!(ExecOpts::new(SchedCfg::lazy()));
            if args_rejected(&e0) {
                cx.stats.discarded = Some("args_rejected".into());
            } else if !completed(&e0) {
                cx.stats.inconclusive.push(format!("S0: {}", ending_name(&e0)));
            } else {
                // rows contributed by each starting vertex, obtained from the engine itself
                let n_starts = model.rows_per_start.len();
                let mut r = vec![];
                let mut ok = true;
                for j in 0..n_starts {
                    let mut o = ExecOpts::new(SchedCfg::lazy());
                    o.only_start = Some(j);
                    let ej = run!(o);
                    if !completed(&ej) {
                        ok = false;
                        break;
                    }
                    r.push(ej.rows.len());
                }
                let total: usize = r.iter().sum();
                if !ok || total != e0.rows.len() {
                    cx.stats.inconclusive.push(format!(
                        "per-start row counts {r:?} do not sum to {} rows",
                        e0.rows.len()
                    ));
                } else {
                    if r != model.rows_per_start && model.undefined.is_none() && !model.nonforest {
                        cx.stats.inconclusive.push("per-start counts differ from model".into());
                    }
                    // m(k): smallest number of leading starting vertices contributing >= k rows
                    let m = |k: usize| -> usize {
                        let mut acc = 0;
                        for (j, c) in r.iter().enumerate() {
                            acc += c;
                            if acc >= k {
                                return j + 1;
                            }
                        }
                        r.len()
                    };
                    let n = e0.rows.len();
                    let mut ks = vec![0usize, n];
                    if n > 0 {
                        ks.push(1 + sched.draw(n as u32) as usize);
                        ks.push(1 + sched.draw(n as u32) as usize);
                    }
                    let mut runs: Vec<(String, ExecOutcome)> = vec![];
                    for k in ks {
                        let mut o = ExecOpts::new(SchedCfg::lazy());
                        o.consumer = Consumer::StopAfter(k);
                        let e = run!(o);
                        runs.push((format!("stop-after-{k}"), e));
                    }
                    runs.push(("full".into(), e0));
                    for (name, e) in &runs {
                        if e.start_pulled_before_first_next != 0 || e.pulls_before_first_next != 0 {
                            cx.push(
                                "data-pulled-before-first-row-requested",
                                format!(
                                    "[{name}] before the first next(): {} starting vertices and {} contexts pulled",
                                    e.start_pulled_before_first_next, e.pulls_before_first_next
                                ),
                                "before-first",
                            );
                        }
                        for (i, sp) in e.start_pulled_at_row.iter().enumerate() {
                            let want = m(i + 1);
                            if *sp != want {
                                cx.push(
                                    "starting-vertices-pulled-ahead-of-demand",
                                    format!(
                                        "[{name}] row {} produced after pulling {sp} starting vertices; rows per starting vertex {r:?} need only {want}",
                                        i + 1
                                    ),
                                    "ahead",
                                );
                                break;
                            }
                        }
                        if e.events_after_drop != e.events_at_stop {
                            cx.push(
                                "data-access-after-result-iterator-dropped",
                                format!(
                                    "[{name}] {} adapter events after the iterator was dropped",
                                    e.events_after_drop - e.events_at_stop
                                ),
                                "after-drop",
                            );
                        }
                        if matches!(e.ending, Ending::Stopped) {
                            cx.stats.probes.insert("consumer_stopped_early".into());
                            if let (Some(last), true) = (e.start_pulled_at_row.last(), e.rows.len() < n) {
                                // stopped between two rows of the same starting vertex?
                                if m(e.rows.len() + 1) == *last {
                                    cx.stats.probes.insert("stopped_between_rows_of_one_start".into());
                                }
                            }
                        }
                    }
                }
            }
        }
        "C04" => {
            let ea = run!(ExecOpts::new(SchedCfg::lazy()));
            if args_rejected(&ea) {
                cx.stats.discarded = Some("args_rejected".into());
            } else if !completed(&ea) {
                cx.stats.inconclusive.push(format!("no-hints: {}", ending_name(&ea)));
            } else {
                let cfgb = SchedCfg::hints_only(&mut sched);
                let eb = run!(ExecOpts::new(cfgb));
                let cfgc = SchedCfg::draw(&mut sched, true);
                let ec = run!(ExecOpts::new(cfgc));
                for (name, e) in [("hints+lazy", &eb), ("hints+random", &ec)] {
                    match &e.ending {
                        Ending::Completed => {
                            if let Some(d) = seq_differs(&ea.rows, &e.rows) {
                                cx.push(
                                    "pruning-by-hints-changed-results",
                                    format!("[{name}] hints ignored vs hints used: {d}"),
                                    "hints",
                                );
                            }
                        }
                        Ending::Panic(info) => cx.violations.push(Violation {
                            property: prop.to_string(),
                            class: "panic-while-using-hints".into(),
                            detail: format!(
                                "[{name}] hints ignored: {} rows; using hints the engine panicked at {}: {}",
                                ea.rows.len(),
                                info.location,
                                first_line(&info.message)
                            ),
                            fingerprint: info.fingerprint(),
                        }),
                        _ => {}
                    }
                }
            }
        }
        "C05" | "C21" | "C13" | "C09" => {
            let e0 = run!(ExecOpts::new(SchedCfg::lazy()));
            if args_rejected(&e0) {
                cx.stats.discarded = Some("args_rejected".into());
            } else {
                let cfg1 = SchedCfg::draw(&mut sched, true);
                let e1 = run!(ExecOpts::new(cfg1));
                let cfg2 = SchedCfg::draw(&mut sched, true);
                let mut o2 = ExecOpts::new(cfg2);
                let k = if model.rows.is_empty() { 0 } else { sched.draw(model.rows.len() as u32 + 1) as usize };
                o2.consumer = Consumer::StopAfter(k);
                let e2 = run!(o2);
                let all = [("S0", &e0), ("random+hints", &e1), ("random+hints+stop", &e2)];
                for (name, e) in all {
                    match prop {
                        "C09" => {
                            if let Some(v) = panic_violation(prop, name, e) {
                                // where the model is silent there is no yardstick for "too
                                // much work": only panics count
                                if !(model.undefined.is_some() && matches!(e.ending, Ending::EventCap)) {
                                    cx.violations.push(v);
                                } else {
                                    cx.stats.inconclusive.push(format!("{name}: event-cap with silent model"));
                                }
                            }
                        }
                        "C13" => {
                            if let Some((class, detail)) = check_rows_c13(&w, &e.raw_rows) {
                                cx.push(&class, format!("[{name}] {detail}"), "c13");
                            }
                            if let Ending::Panic(info) = &e.ending {
                                if crate::runner::panic_in_row_construction(info) {
                                    cx.push(
                                        "engine-row-construction-check-failed",
                                        format!(
                                            "[{name}] after {} rows the engine's own row-construction check (construct_outputs) failed at {}: {}",
                                            e.rows.len(),
                                            info.location,
                                            info.message.replace('\n', " ")
                                        ),
                                        "c13-construct",
                                    );
                                }
                            }
                        }
                        _ => cx.monitor(e, name),
                    }
                }
                if prop != "C05" {
                    let eb = run_basic!();
                    match prop {
                        "C09" => {
                            if let Ending::Panic(info) = &eb.ending {
                                cx.violations.push(Violation {
                                    property: prop.to_string(),
                                    class: "engine-panic".into(),
                                    detail: format!("[basic-adapter] panicked at {}: {}", info.location, first_line(&info.message)),
                                    fingerprint: info.fingerprint(),
                                });
                            }
                        }
                        "C13" => {
                            if let Some((class, detail)) = check_rows_c13(&w, &eb.raw_rows) {
                                cx.push(&class, format!("[basic-adapter] {detail}"), "c13");
                            }
                            if let Ending::Panic(info) = &eb.ending {
                                if crate::runner::panic_in_row_construction(info) {
                                    cx.push(
                                        "engine-row-construction-check-failed",
                                        format!("[basic-adapter] construct_outputs check failed at {}: {}", info.location, info.message.replace('\n', " ")),
                                        "c13-construct",
                                    );
                                }
                            }
                        }
                        "C21" => {
                            for v in &eb.violations {
                                let fingerprint = format!("{}|features={}", v.class, feature_sig(&w));
                                cx.violations.push(Violation {
                                    property: prop.to_string(),
                                    class: v.class.clone(),
                                    detail: format!("[basic-adapter] {}", v.detail),
                                    fingerprint,
                                });
                            }
                        }
                        _ => {}
                    }
                }
                if prop == "C09" {
                    let cfg = SchedCfg::draw(&mut sched, true);
                    let io = exec_interleaved(&w, cfg, sched, 2, (model.event_cap()) * 2);
                    sched = io.sched.clone();
                    if let Ending::HarnessBug(m) = &io.ending {
                        return Err(HarnessError(format!("harness self-check: {m}")));
                    }
                    cx.stats.execs += 1;
                    if let Ending::Panic(info) = &io.ending {
                        cx.violations.push(Violation {
                            property: prop.to_string(),
                            class: "engine-panic".into(),
                            detail: format!("[interleaved] panicked at {}: {}", info.location, first_line(&info.message)),
                            fingerprint: info.fingerprint(),
                        });
                    }
                }
                // dedupe identical fingerprints within one case
                let mut seen = BTreeSet::new();
                cx.violations.retain(|v| seen.insert(v.fingerprint.clone()));
            }
        }
        "C22" => {
            crate::transforms::case_c22(&mut cx_bridge(&mut cx), &mut sched)?;
        }
        "C23" => {
            crate::transforms::case_c23(&mut cx_bridge(&mut cx), &mut sched)?;
        }
        "C15" => {
            crate::trace::case_c15(&mut cx_bridge(&mut cx), &mut sched)?;
        }
        other => return Err(HarnessError(format!("unknown tfsim property {other}"))),
    }

    tapes.sched = sched;
    let mut stats = cx.stats;
    let perturbed = stats.fires.f1_prefetch_in_call
        + stats.fires.f2_chunked_refill
        + stats.fires.f3_drain_all
        + stats.fires.f4_eager_neighbors
        + stats.fires.f5_static_consulted
        + stats.fires.f5_dynamic_consulted
        + stats.fires.f5_mandatory_consulted
        + stats.fires.start_collected
        > 0
        || stats.probes.contains("consumer_stopped_early");
    let rejected_something = model.steps as usize > model.rows.len() + 1;
    stats.nontrivial = stats.discarded.is_none()
        && perturbed
        && (!model.rows.is_empty() || rejected_something);
    stats.case_digest = mix(fnv1a(w.query_text.as_bytes()), mix(fnv1a(w.schema_text.as_bytes()), cx.sched_digest));
    if stats.discarded.is_none() {
        stats.sample = Some(serde_json::json!({
            "query": w.query_text,
            "args": w.args.iter().map(|(k, v)| (k.clone(), crate::val::fv_render(v))).collect::<std::collections::BTreeMap<_, _>>(),
            "vertices": w.world.vertices.len(),
            "model_rows": model.rows.len(),
            "executions": stats.execs,
            "adapter_events": stats.events,
        }));
    }
    Ok(CaseResult { violations: cx.violations, stats })
}

pub fn ending_name(e: &ExecOutcome) -> String {
    match &e.ending {
        Ending::Completed => "completed".into(),
        Ending::Stopped => "stopped".into(),
        Ending::Panic(i) => format!("panic({})", i.fingerprint()),
        Ending::EventCap => "event-cap".into(),
        Ending::HarnessBug(m) => format!("harness-bug({m})"),
        Ending::ArgsRejected(m) => format!("args-rejected({})", first_line(m)),
    }
}

/// What the transform / trace modules need from the case context.
pub struct CaseBridge<'a, 'b> {
    pub prop: &'a str,
    pub w: &'a Workload,
    pub model: &'a ModelResult,
    pub violations: &'b mut Vec<Violation>,
    pub stats: &'b mut CaseStats,
    pub sched_digest: &'b mut u64,
}

fn cx_bridge<'a, 'b>(cx: &'b mut Ctx<'a>) -> CaseBridge<'a, 'b> {
    CaseBridge {
        prop: cx.prop,
        w: cx.w,
        model: cx.model,
        violations: &mut cx.violations,
        stats: &mut cx.stats,
        sched_digest: &mut cx.sched_digest,
    }
}

impl<'a, 'b> CaseBridge<'a, 'b> {
    pub fn absorb(&mut self, e: &ExecOutcome) {
        self.stats.execs += 1;
        self.stats.events += e.events;
        self.stats.fires.add(&e.fires);
        *self.sched_digest = mix(*self.sched_digest, e.digest);
    }
    pub fn push(&mut self, class: &str, detail: String, fp_extra: &str) {
        let fingerprint = format!("{class}|{fp_extra}|features={}", feature_sig(self.w));
        self.violations.push(Violation {
            property: self.prop.to_string(),
            class: class.to_string(),
            detail,
            fingerprint,
        });
    }
}

pub fn harness_check_pub(e: &ExecOutcome) -> Result<(), HarnessError> {
    harness_check(e)
}
