//! C24 under a scheduler we own: Miri interprets the real std::sync primitives and decides every
//! preemption from -Zmiri-seed, so one seed is one exactly repeatable interleaving, with data-race
//! and UB detection. Threads start from a barrier with cold statics, concurrently parse the schema,
//! compile and execute queries (round 1), then share one Arc<Schema> / Arc<IndexedQuery> (round 2).
//! Oracle: every thread's results equal the sequential results.

use std::collections::BTreeMap;
use std::sync::{Arc, Barrier, Mutex};

use trustfall_core::frontend::parse;
use trustfall_core::interpreter::execution::interpret_ir;
use trustfall_core::interpreter::{
    Adapter, AsVertex, ContextIterator, ContextOutcomeIterator, ResolveEdgeInfo, ResolveInfo,
    VertexIterator,
};
use trustfall_core::ir::{EdgeParameters, FieldValue, IndexedQuery};
use trustfall_core::schema::Schema;

const SCHEMA: &str = r#"
schema { query: Root }
directive @filter(op: String!, value: [String!]) repeatable on FIELD | INLINE_FRAGMENT
directive @tag(name: String) repeatable on FIELD
directive @output(name: String) repeatable on FIELD
directive @optional on FIELD
directive @recurse(depth: Int!) on FIELD
directive @fold on FIELD
directive @transform(op: String!) repeatable on FIELD
type Root { N(max: Int! = 3): [N!]! }
interface Named { name: String }
type N implements Named { name: String  value: Int!  next: N  divs: [N!]  same: Named }
"#;

/// Same type and field names, different nullability and an extra type: anything cached globally by
/// name or by query text (instead of by schema) would leak between threads using different schemas.
const SCHEMA_B: &str = r#"
schema { query: Root }
directive @filter(op: String!, value: [String!]) repeatable on FIELD | INLINE_FRAGMENT
directive @tag(name: String) repeatable on FIELD
directive @output(name: String) repeatable on FIELD
directive @optional on FIELD
directive @recurse(depth: Int!) on FIELD
directive @fold on FIELD
directive @transform(op: String!) repeatable on FIELD
type Root { N(max: Int! = 2): [N!]! }
interface Named { name: String! }
type N implements Named { name: String!  value: Int  next: N  divs: [N!]  extra: Boolean  same: Named! }
type Other implements Named { name: String! }
"#;

fn schema_text(which: usize) -> &'static str {
    if which % 2 == 0 { SCHEMA } else { SCHEMA_B }
}

const QUERIES: [&str; 6] = [
    r#"{ N { __typename @output value @output @filter(op: ">=", value: ["$lo"]) divs @fold @transform(op: "count") @output @filter(op: ">=", value: ["$c"]) { name @output } } }"#,
    r#"{ N(max: 4) { name @filter(op: "has_substring", value: ["$s"]) @output next @optional { v: value @output } } }"#,
    r#"{ N { value @tag(name: "t") @output next @recurse(depth: 2) { w: value @output @filter(op: ">=", value: ["%t"]) } divs @fold @transform(op: "count") @output(name: "nd") @filter(op: ">", value: ["$z"]) { dn: name @output @filter(op: "!=", value: ["$s"]) } } }"#,
    // regex / not_regex with a *tag* operand (the pattern changes from row to row), inside a fold
    // and under an optional edge
    r#"{ N(max: 4) { name @tag(name: "nm") @output divs @fold { dn: name @output @filter(op: "regex", value: ["%nm"]) } next @optional { nx: name @output @filter(op: "not_regex", value: ["%nm"]) } } }"#,
    // regex with a variable, list operators with variables, ordering and string operators with
    // tags, a fold-count tag used by a later filter, recursion
    r#"{ N(max: 4) { name @filter(op: "regex", value: ["$re"]) @tag(name: "nm") value @output @tag(name: "v") @filter(op: "one_of", value: ["$set"]) divs @fold @transform(op: "count") @tag(name: "c") { dv: value @output @filter(op: "<=", value: ["%v"]) name @filter(op: "not_one_of", value: ["$names"]) } next @recurse(depth: 3) { rv: value @output @filter(op: ">", value: ["%c"]) rn: name @output @filter(op: "has_suffix", value: ["$suf"]) @filter(op: "not_has_prefix", value: ["%nm"]) } } }"#,
    // type coercion through an interface-typed edge, null checks, = / != with a tag and a variable
    r#"{ N { value @tag(name: "v") same { ... on N { sv: value @output @filter(op: "=", value: ["%v"]) name @filter(op: "is_not_null") @output(name: "sn") __typename @filter(op: "!=", value: ["$tn"]) } } } }"#,
];

/// Argument values; `alt` selects a second set so that concurrently running executions of the
/// same compiled query carry different values (anything cached per variable name, per query or
/// per process instead of per execution would leak between them).
fn args_for_alt(q: usize, alt: usize) -> BTreeMap<Arc<str>, FieldValue> {
    let mut m: BTreeMap<Arc<str>, FieldValue> = BTreeMap::new();
    let a = alt % 2 == 1;
    let strs = |xs: &[&str]| FieldValue::List(xs.iter().map(|x| FieldValue::String((*x).into())).collect::<Vec<_>>().into());
    let ints = |xs: &[i64]| FieldValue::List(xs.iter().map(|x| FieldValue::Int64(*x)).collect::<Vec<_>>().into());
    match q {
        0 => {
            m.insert("lo".into(), FieldValue::Int64(if a { 2 } else { 1 }));
            m.insert("c".into(), FieldValue::Uint64(if a { 2 } else { 1 }));
        }
        1 => {
            m.insert("s".into(), FieldValue::String(if a { "o" } else { "n" }.into()));
        }
        2 => {
            m.insert("z".into(), FieldValue::Int64(0));
            m.insert("s".into(), FieldValue::String(if a { "two" } else { "zero" }.into()));
        }
        3 => {}
        4 => {
            m.insert("re".into(), FieldValue::String(if a { "e$" } else { "^t|o" }.into()));
            m.insert("set".into(), if a { ints(&[1, 3, 5]) } else { ints(&[2, 3, 4]) });
            m.insert("names".into(), if a { strs(&["one"]) } else { strs(&["zero", "two"]) });
            m.insert("suf".into(), FieldValue::String(if a { "e" } else { "r" }.into()));
        }
        _ => {
            m.insert("tn".into(), FieldValue::String(if a { "N" } else { "Other" }.into()));
        }
    }
    m
}

fn args_for(q: usize) -> BTreeMap<Arc<str>, FieldValue> {
    args_for_alt(q, 0)
}

#[derive(Clone, Debug)]
struct V(i64);

struct TinyAdapter {
    log: Arc<Mutex<Vec<u8>>>,
    tag: u8,
    /// rotates the `name` property: executions running at the same time on different threads see
    /// different datasets, hence different tag values in flight for the same query
    salt: usize,
}

impl TinyAdapter {
    fn checkpoint(&self) {
        self.log.lock().unwrap().push(self.tag);
    }
}

fn name_of(v: i64) -> &'static str {
    ["zero", "one", "two", "three", "four", "five"][v as usize % 6]
}

impl Adapter<'static> for TinyAdapter {
    type Vertex = V;
    fn resolve_starting_vertices(
        &self,
        _edge_name: &Arc<str>,
        parameters: &EdgeParameters,
        _resolve_info: &ResolveInfo,
    ) -> VertexIterator<'static, V> {
        self.checkpoint();
        let max = parameters["max"].as_i64().unwrap();
        Box::new((0..=max).map(V))
    }
    fn resolve_property<X: AsVertex<V> + 'static>(
        &self,
        contexts: ContextIterator<'static, X>,
        _type_name: &Arc<str>,
        property_name: &Arc<str>,
        _resolve_info: &ResolveInfo,
    ) -> ContextOutcomeIterator<'static, X, FieldValue> {
        self.checkpoint();
        let p = property_name.clone();
        let salt = self.salt;
        Box::new(contexts.map(move |c| {
            let v = match c.active_vertex::<V>() {
                None => FieldValue::Null,
                Some(v) => match p.as_ref() {
                    "name" => FieldValue::String(name_of(v.0 + salt as i64).into()),
                    "value" => FieldValue::Int64(v.0),
                    "__typename" => FieldValue::String("N".into()),
                    _ => unreachable!(),
                },
            };
            (c, v)
        }))
    }
    fn resolve_neighbors<X: AsVertex<V> + 'static>(
        &self,
        contexts: ContextIterator<'static, X>,
        _type_name: &Arc<str>,
        edge_name: &Arc<str>,
        _parameters: &EdgeParameters,
        _resolve_info: &ResolveEdgeInfo,
    ) -> ContextOutcomeIterator<'static, X, VertexIterator<'static, V>> {
        self.checkpoint();
        let e = edge_name.clone();
        Box::new(contexts.map(move |c| {
            let ns: Vec<V> = match c.active_vertex::<V>() {
                None => vec![],
                Some(v) => match e.as_ref() {
                    "next" => {
                        if v.0 < 4 {
                            vec![V(v.0 + 1)]
                        } else {
                            vec![]
                        }
                    }
                    "divs" => (1..=v.0).filter(|d| v.0 % d == 0).map(V).collect(),
                    "same" => vec![V(v.0)],
                    _ => unreachable!(),
                },
            };
            let it: VertexIterator<'static, V> = Box::new(ns.into_iter());
            (c, it)
        }))
    }
    fn resolve_coercion<X: AsVertex<V> + 'static>(
        &self,
        contexts: ContextIterator<'static, X>,
        _type_name: &Arc<str>,
        _coerce_to_type: &Arc<str>,
        _resolve_info: &ResolveInfo,
    ) -> ContextOutcomeIterator<'static, X, bool> {
        Box::new(contexts.map(|c| {
            let ok = c.active_vertex::<V>().is_some();
            (c, ok)
        }))
    }
}

fn execute(q: Arc<IndexedQuery>, qi: usize, log: &Arc<Mutex<Vec<u8>>>, tag: u8) -> String {
    execute_alt(q, qi, 0, log, tag)
}

fn execute_alt(q: Arc<IndexedQuery>, qi: usize, alt: usize, log: &Arc<Mutex<Vec<u8>>>, tag: u8) -> String {
    execute_salted(q, qi, alt, 0, log, tag)
}

fn execute_salted(q: Arc<IndexedQuery>, qi: usize, alt: usize, salt: usize, log: &Arc<Mutex<Vec<u8>>>, tag: u8) -> String {
    let adapter = Arc::new(TinyAdapter { log: log.clone(), tag, salt });
    let rows: Vec<_> = interpret_ir(adapter, q, Arc::new(args_for_alt(qi, alt))).unwrap().collect();
    format!("{rows:?}")
}

fn compile_and_run_cold(qi: usize, which_schema: usize, log: &Arc<Mutex<Vec<u8>>>, tag: u8) -> String {
    let schema = Schema::parse(schema_text(which_schema)).unwrap();
    let q = parse(&schema, QUERIES[qi]).unwrap();
    let vars = format!("{:?} {:?}", q.ir_query.variables, q.outputs);
    log.lock().unwrap().push(tag);
    format!("{vars}|{}", execute(q, qi, log, tag))
}

/// Hot variant: the main thread parses the schema and compiles every query once; then 3 or 4
/// threads, released together, first execute the rotation's first query three times (the
/// variant's focus query), then all shared compiled queries once, in the same rotation (so that the same compiled query - and the same filter code with different tag /
/// argument values - is running on several threads at once for most of the interpreted time),
/// odd threads with the second argument set. Oracle: every execution equals the sequential
/// execution with the same arguments.
fn hot(variant: usize, log: &Arc<Mutex<Vec<u8>>>) -> i32 {
    let schema = Arc::new(Schema::parse(SCHEMA).unwrap());
    let order: Vec<usize> = (0..QUERIES.len()).map(|k| (variant + k) % QUERIES.len()).collect();
    let shared: Vec<(usize, Arc<IndexedQuery>)> =
        order.iter().map(|qi| (*qi, parse(&schema, QUERIES[*qi]).unwrap())).collect();
    let n_threads = 3 + variant % 2;
    let barrier = Arc::new(Barrier::new(n_threads));
    let mut hs = vec![];
    for t in 0..n_threads {
        let b = barrier.clone();
        let log = log.clone();
        let shared = shared.clone();
        hs.push(std::thread::spawn(move || {
            b.wait();
            let mut out = vec![];
            let alt = t % 2;
            // focus: the first query of the rotation is executed three more times by every
            // thread right after the barrier, alternating argument sets, so that for a good
            // part of the run all threads are inside the same query's code at the same time
            let (fqi, fq) = &shared[0];
            for rep in 0..3 {
                let a = (t + rep) % 2;
                out.push((*fqi, a, t + rep, execute_salted(fq.clone(), *fqi, a, t + rep, &log, b'0' + t as u8)));
            }
            for (qi, q) in &shared {
                out.push((*qi, alt, t, execute_salted(q.clone(), *qi, alt, t, &log, b'0' + t as u8)));
            }
            out
        }));
    }
    let results: Vec<Vec<(usize, usize, usize, String)>> = hs.into_iter().map(|h| h.join().unwrap()).collect();
    let seq_log = Arc::new(Mutex::new(Vec::<u8>::new()));
    let mut expected: BTreeMap<(usize, usize, usize), String> = BTreeMap::new();
    let mut ok = true;
    for (t, rs) in results.iter().enumerate() {
        for (qi, alt, salt, r) in rs {
            let key = (*qi, *alt, *salt);
            if !expected.contains_key(&key) {
                let q = &shared.iter().find(|x| x.0 == *qi).unwrap().1;
                expected.insert(key, execute_salted(q.clone(), *qi, *alt, *salt, &seq_log, b'.'));
            }
            if &expected[&key] != r {
                println!("MISMATCH hot thread {t} query {qi} args {alt} dataset {salt}: concurrent {r} sequential {}", expected[&key]);
                ok = false;
            }
        }
    }
    let l = log.lock().unwrap();
    println!("INTERLEAVING variant={variant} {}", String::from_utf8_lossy(&l));
    if !ok {
        println!("RESULT violation");
        return 3;
    }
    println!("RESULT ok");
    0
}

fn main() {
    let argv: Vec<String> = std::env::args().collect();
    let variant: usize = argv.get(1).and_then(|s| s.parse().ok()).unwrap_or(0);
    let n_threads = 2 + variant % 2; // 2 or 3
    let log = Arc::new(Mutex::new(Vec::<u8>::new()));
    if variant >= 2 {
        // "hot" variants: no cold-start round; all the interpreted time goes into several threads
        // executing the same shared compiled queries at the same time (see hot()).
        std::process::exit(hot(variant, &log));
    }

    // Round 1: cold statics raced on first touch.
    let barrier = Arc::new(Barrier::new(n_threads));
    let mut hs = vec![];
    for t in 0..n_threads {
        let b = barrier.clone();
        let log = log.clone();
        hs.push(std::thread::spawn(move || {
            b.wait();
            let qi = (t + variant) % QUERIES.len();
            log.lock().unwrap().push(b'a' + t as u8);
            let r = compile_and_run_cold(qi, t + variant, &log, b'a' + t as u8);
            log.lock().unwrap().push(b'A' + t as u8);
            (qi, t + variant, r)
        }));
    }
    let round1: Vec<(usize, usize, String)> = hs.into_iter().map(|h| h.join().unwrap()).collect();

    // Round 2: one shared Arc<Schema>; after the barrier every thread compiles a query of its own
    // over it and runs it (shared compiled queries are the hot variants' business).
    let schema = Arc::new(Schema::parse(SCHEMA).unwrap());
    let n_threads = 3;
    let barrier = Arc::new(Barrier::new(n_threads));
    let mut hs = vec![];
    for t in 0..n_threads {
        let b = barrier.clone();
        let log = log.clone();
        let schema = schema.clone();
        hs.push(std::thread::spawn(move || {
            b.wait();
            let alt = t % 2;
            let qi = (t + 1 + variant) % QUERIES.len();
            let own = parse(schema.as_ref(), QUERIES[qi]).unwrap();
            log.lock().unwrap().push(b'0' + t as u8);
            let r_own = execute_alt(own.clone(), qi, alt, &log, b'0' + t as u8);
            let same_ir = format!("{:?}", own.ir_query);
            drop(schema);
            (qi, alt, r_own, same_ir)
        }));
    }
    let round2: Vec<_> = hs.into_iter().map(|h| h.join().unwrap()).collect();

    // Sequential recomputation.
    let seq_log = Arc::new(Mutex::new(Vec::<u8>::new()));
    let mut ok = true;
    for (qi, ws, r) in &round1 {
        if &compile_and_run_cold(*qi, *ws, &seq_log, b'.') != r {
            println!("MISMATCH round1 query {qi}");
            ok = false;
        }
    }
    for (qi, alt, r_own, ir) in &round2 {
        let own = parse(schema.as_ref(), QUERIES[*qi]).unwrap();
        if &execute_alt(own.clone(), *qi, *alt, &seq_log, b'.') != r_own || &format!("{:?}", own.ir_query) != ir {
            println!("MISMATCH round2 own query {qi}");
            ok = false;
        }
    }
    let l = log.lock().unwrap();
    println!("INTERLEAVING variant={variant} {}", String::from_utf8_lossy(&l));
    if !ok {
        println!("RESULT violation");
        std::process::exit(3);
    }
    println!("RESULT ok");
}
