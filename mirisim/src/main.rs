//! C24 under a scheduler we own: Miri interprets the real std::sync primitives and decides every
//! preemption from -Zmiri-seed, so one seed is one exactly repeatable interleaving, with data-race
//! and UB detection. Threads start from a barrier with cold statics, concurrently parse the schema,
//! compile and execute queries (round 1), then share one Arc<Schema> / Arc<IndexedQuery> (round 2).
//! Oracle: every thread's results equal the sequential results.

use std::collections::BTreeMap;
use std::sync::{Arc, Barrier, Mutex};

use trustfall_core::frontend::parse;
use trustfall_core::interpreter::execution::interpret_ir;
use trustfall_core::interpreter::{
    Adapter, AsVertex, ContextIterator, ContextOutcomeIterator, ResolveEdgeInfo, ResolveInfo,
    VertexIterator,
};
use trustfall_core::ir::{EdgeParameters, FieldValue, IndexedQuery};
use trustfall_core::schema::Schema;

const SCHEMA: &str = r#"
schema { query: Root }
directive @filter(op: String!, value: [String!]) repeatable on FIELD | INLINE_FRAGMENT
directive @tag(name: String) repeatable on FIELD
directive @output(name: String) repeatable on FIELD
directive @optional on FIELD
directive @recurse(depth: Int!) on FIELD
directive @fold on FIELD
directive @transform(op: String!) repeatable on FIELD
type Root { N(max: Int! = 3): [N!]! }
interface Named { name: String }
type N implements Named { name: String  value: Int!  next: N  divs: [N!] }
"#;

/// Same type and field names, different nullability and an extra type: anything cached globally by
/// name or by query text (instead of by schema) would leak between threads using different schemas.
const SCHEMA_B: &str = r#"
schema { query: Root }
directive @filter(op: String!, value: [String!]) repeatable on FIELD | INLINE_FRAGMENT
directive @tag(name: String) repeatable on FIELD
directive @output(name: String) repeatable on FIELD
directive @optional on FIELD
directive @recurse(depth: Int!) on FIELD
directive @fold on FIELD
directive @transform(op: String!) repeatable on FIELD
type Root { N(max: Int! = 2): [N!]! }
interface Named { name: String! }
type N implements Named { name: String!  value: Int  next: N  divs: [N!]  extra: Boolean }
type Other implements Named { name: String! }
"#;

fn schema_text(which: usize) -> &'static str {
    if which % 2 == 0 { SCHEMA } else { SCHEMA_B }
}

const QUERIES: [&str; 3] = [
    r#"{ N { __typename @output value @output @filter(op: ">=", value: ["$lo"]) divs @fold @transform(op: "count") @output @filter(op: ">=", value: ["$c"]) { name @output } } }"#,
    r#"{ N(max: 4) { name @filter(op: "has_substring", value: ["$s"]) @output next @optional { v: value @output } } }"#,
    r#"{ N { value @tag(name: "t") @output next @recurse(depth: 2) { w: value @output @filter(op: ">=", value: ["%t"]) } divs @fold @transform(op: "count") @output(name: "nd") @filter(op: ">", value: ["$z"]) { dn: name @output @filter(op: "!=", value: ["$s"]) } } }"#,
];

fn args_for(q: usize) -> BTreeMap<Arc<str>, FieldValue> {
    let mut m: BTreeMap<Arc<str>, FieldValue> = BTreeMap::new();
    match q {
        0 => {
            m.insert("lo".into(), FieldValue::Int64(1));
            m.insert("c".into(), FieldValue::Uint64(1));
        }
        1 => {
            m.insert("s".into(), FieldValue::String("n".into()));
        }
        _ => {
            m.insert("z".into(), FieldValue::Int64(0));
            m.insert("s".into(), FieldValue::String("zero".into()));
        }
    }
    m
}

#[derive(Clone, Debug)]
struct V(i64);

struct TinyAdapter {
    log: Arc<Mutex<Vec<u8>>>,
    tag: u8,
}

impl TinyAdapter {
    fn checkpoint(&self) {
        self.log.lock().unwrap().push(self.tag);
    }
}

fn name_of(v: i64) -> &'static str {
    ["zero", "one", "two", "three", "four", "five"][v as usize % 6]
}

impl Adapter<'static> for TinyAdapter {
    type Vertex = V;
    fn resolve_starting_vertices(
        &self,
        _edge_name: &Arc<str>,
        parameters: &EdgeParameters,
        _resolve_info: &ResolveInfo,
    ) -> VertexIterator<'static, V> {
        self.checkpoint();
        let max = parameters["max"].as_i64().unwrap();
        Box::new((0..=max).map(V))
    }
    fn resolve_property<X: AsVertex<V> + 'static>(
        &self,
        contexts: ContextIterator<'static, X>,
        _type_name: &Arc<str>,
        property_name: &Arc<str>,
        _resolve_info: &ResolveInfo,
    ) -> ContextOutcomeIterator<'static, X, FieldValue> {
        self.checkpoint();
        let p = property_name.clone();
        Box::new(contexts.map(move |c| {
            let v = match c.active_vertex::<V>() {
                None => FieldValue::Null,
                Some(v) => match p.as_ref() {
                    "name" => FieldValue::String(name_of(v.0).into()),
                    "value" => FieldValue::Int64(v.0),
                    "__typename" => FieldValue::String("N".into()),
                    _ => unreachable!(),
                },
            };
            (c, v)
        }))
    }
    fn resolve_neighbors<X: AsVertex<V> + 'static>(
        &self,
        contexts: ContextIterator<'static, X>,
        _type_name: &Arc<str>,
        edge_name: &Arc<str>,
        _parameters: &EdgeParameters,
        _resolve_info: &ResolveEdgeInfo,
    ) -> ContextOutcomeIterator<'static, X, VertexIterator<'static, V>> {
        self.checkpoint();
        let e = edge_name.clone();
        Box::new(contexts.map(move |c| {
            let ns: Vec<V> = match c.active_vertex::<V>() {
                None => vec![],
                Some(v) => match e.as_ref() {
                    "next" => {
                        if v.0 < 4 {
                            vec![V(v.0 + 1)]
                        } else {
                            vec![]
                        }
                    }
                    "divs" => (1..=v.0).filter(|d| v.0 % d == 0).map(V).collect(),
                    _ => unreachable!(),
                },
            };
            let it: VertexIterator<'static, V> = Box::new(ns.into_iter());
            (c, it)
        }))
    }
    fn resolve_coercion<X: AsVertex<V> + 'static>(
        &self,
        contexts: ContextIterator<'static, X>,
        _type_name: &Arc<str>,
        _coerce_to_type: &Arc<str>,
        _resolve_info: &ResolveInfo,
    ) -> ContextOutcomeIterator<'static, X, bool> {
        Box::new(contexts.map(|c| {
            let ok = c.active_vertex::<V>().is_some();
            (c, ok)
        }))
    }
}

fn execute(q: Arc<IndexedQuery>, qi: usize, log: &Arc<Mutex<Vec<u8>>>, tag: u8) -> String {
    let adapter = Arc::new(TinyAdapter { log: log.clone(), tag });
    let rows: Vec<_> = interpret_ir(adapter, q, Arc::new(args_for(qi))).unwrap().collect();
    format!("{rows:?}")
}

fn compile_and_run_cold(qi: usize, which_schema: usize, log: &Arc<Mutex<Vec<u8>>>, tag: u8) -> String {
    let schema = Schema::parse(schema_text(which_schema)).unwrap();
    let q = parse(&schema, QUERIES[qi]).unwrap();
    let vars = format!("{:?} {:?}", q.ir_query.variables, q.outputs);
    log.lock().unwrap().push(tag);
    format!("{vars}|{}", execute(q, qi, log, tag))
}

fn main() {
    let argv: Vec<String> = std::env::args().collect();
    let variant: usize = argv.get(1).and_then(|s| s.parse().ok()).unwrap_or(0);
    let n_threads = 2 + variant % 2; // 2 or 3
    let log = Arc::new(Mutex::new(Vec::<u8>::new()));

    // Round 1: cold statics raced on first touch.
    let barrier = Arc::new(Barrier::new(n_threads));
    let mut hs = vec![];
    for t in 0..n_threads {
        let b = barrier.clone();
        let log = log.clone();
        hs.push(std::thread::spawn(move || {
            b.wait();
            let qi = (t + variant) % QUERIES.len();
            log.lock().unwrap().push(b'a' + t as u8);
            let r = compile_and_run_cold(qi, t + variant, &log, b'a' + t as u8);
            log.lock().unwrap().push(b'A' + t as u8);
            (qi, t + variant, r)
        }));
    }
    let round1: Vec<(usize, usize, String)> = hs.into_iter().map(|h| h.join().unwrap()).collect();

    // Round 2: one shared Arc<Schema> and shared Arc<IndexedQuery>s that nobody has executed yet.
    // The very first thing every thread does after the barrier is to execute the shared compiled
    // queries, so that any lazily initialised state *inside* a compiled query is raced cold.
    let schema = Arc::new(Schema::parse(SCHEMA).unwrap());
    // several compiled-query objects, each one a separate cold window
    let shared: Vec<(usize, Arc<IndexedQuery>)> = (0..8)
        .map(|k| {
            let qi = (variant + k) % QUERIES.len();
            (qi, parse(&schema, QUERIES[qi]).unwrap())
        })
        .collect();
    let n_threads = 3;
    let barrier = Arc::new(Barrier::new(n_threads));
    let mut hs = vec![];
    for t in 0..n_threads {
        let b = barrier.clone();
        let log = log.clone();
        let schema = schema.clone();
        let shared = shared.clone();
        hs.push(std::thread::spawn(move || {
            b.wait();
            let mut r_shared = String::new();
            for (qi, q) in &shared {
                r_shared.push_str(&execute(q.clone(), *qi, &log, b'0' + t as u8));
                r_shared.push('|');
            }
            log.lock().unwrap().push(b'0' + t as u8);
            // compile a different query over the shared schema
            let qi = (t + 1 + variant) % QUERIES.len();
            let own = parse(schema.as_ref(), QUERIES[qi]).unwrap();
            log.lock().unwrap().push(b'0' + t as u8);
            let r_own = execute(own.clone(), qi, &log, b'0' + t as u8);
            let same_ir = format!("{:?}", own.ir_query);
            drop(shared);
            drop(schema);
            (qi, r_shared, r_own, same_ir)
        }));
    }
    let round2: Vec<_> = hs.into_iter().map(|h| h.join().unwrap()).collect();

    // Sequential recomputation.
    let seq_log = Arc::new(Mutex::new(Vec::<u8>::new()));
    let mut ok = true;
    for (qi, ws, r) in &round1 {
        if &compile_and_run_cold(*qi, *ws, &seq_log, b'.') != r {
            println!("MISMATCH round1 query {qi}");
            ok = false;
        }
    }
    let mut seq_shared = String::new();
    for (qi, q) in &shared {
        seq_shared.push_str(&execute(q.clone(), *qi, &seq_log, b'.'));
        seq_shared.push('|');
    }
    for (qi, r_shared, r_own, ir) in &round2 {
        let own = parse(schema.as_ref(), QUERIES[*qi]).unwrap();
        if r_shared != &seq_shared || &execute(own.clone(), *qi, &seq_log, b'.') != r_own || &format!("{:?}", own.ir_query) != ir {
            println!("MISMATCH round2 query {qi}");
            ok = false;
        }
    }
    let l = log.lock().unwrap();
    println!("INTERLEAVING variant={variant} {}", String::from_utf8_lossy(&l));
    if !ok {
        println!("RESULT violation");
        std::process::exit(3);
    }
    println!("RESULT ok");
}
