#!/bin/bash
# C24: schemas and compiled queries can be shared across threads.
#   run.sh quick|thorough        (honours VERIF_SEED)
#   run.sh --replay <path>
# Part 1: Send + Sync compile-time check (sendsync crate).
# Part 2: Miri owns the thread scheduler: one -Zmiri-seed = one exactly repeatable interleaving,
#         with data-race / UB detection in trustfall_core and its dependencies.
set -u
VERIF_DIR="${VERIF_DIR:-/verif}"
export CARGO_NET_OFFLINE=true
MODE="${1:-quick}"
SEED="${VERIF_SEED:-20260921}"
case "$SEED" in (*[!0-9]*|'') SEED=$(printf '%s' "$SEED" | cksum | cut -d' ' -f1);; esac
mkdir -p "$VERIF_DIR/evidence" "$VERIF_DIR/replays" "$VERIF_DIR/target"
T0=$(date +%s.%N)

run_miri() { # variant first last rate outfile
  ( cd "$VERIF_DIR/mirisim" && MIRIFLAGS="-Zmiri-many-seeds=$2..$3 -Zmiri-preemption-rate=$4" \
      cargo +nightly miri run --offline -q -- "$1" >"$5" 2>&1 )
}

if [ "$MODE" = "--replay" ]; then
  F="${2:-}"
  [ -f "$F" ] || { echo "harness error: no replay file $F" >&2; exit 2; }
  KIND=$(python3 -c "import json,sys;print(json.load(open(sys.argv[1])).get('kind',''))" "$F")
  if [ "$KIND" = "sendsync" ]; then
    ( cd "$VERIF_DIR/sendsync" && cargo build --offline 2>&1 | tail -30 )
    if ( cd "$VERIF_DIR/sendsync" && cargo build --offline -q 2>/dev/null ); then echo "not reproduced"; exit 0; fi
    echo "VIOLATION property=C24 replay=$F"; exit 1
  fi
  read -r VARIANT MSEED RATE < <(python3 -c "import json,sys;j=json.load(open(sys.argv[1]));print(j['variant'],j['miri_seed'],j['preemption_rate'])" "$F")
  OUT="$VERIF_DIR/target/miri-replay.log"
  ( cd "$VERIF_DIR/mirisim" && MIRIFLAGS="-Zmiri-seed=$MSEED -Zmiri-preemption-rate=$RATE" \
      cargo +nightly miri run --offline -q -- "$VARIANT" >"$OUT" 2>&1 )
  RC=$?
  tail -40 "$OUT"
  if [ $RC -ne 0 ] || ! grep -q "RESULT ok" "$OUT"; then echo "VIOLATION property=C24 replay=$F"; exit 1; fi
  echo "not reproduced"; exit 0
fi

# ---- Part 1: Send + Sync -------------------------------------------------------------------
SS_LOG="$VERIF_DIR/target/sendsync.log"
if ! ( cd "$VERIF_DIR/sendsync" && cargo build --offline >"$SS_LOG" 2>&1 ); then
  if grep -Eq "cannot be (sent|shared) between threads safely|the trait bound .*: (Send|Sync)|is not satisfied.*(Send|Sync)|\`(Send|Sync)\` is not implemented" "$SS_LOG"; then
    R="$VERIF_DIR/replays/C24-sendsync.json"
    python3 - "$SS_LOG" "$R" <<'PY'
import json,sys
log=open(sys.argv[1]).read()
json.dump({"version":1,"property":"C24","engine":"mirisim","kind":"sendsync","violation":{"class":"type-is-not-send-sync","detail":log[-4000:]}},open(sys.argv[2],"w"),indent=1)
PY
    echo "VIOLATION property=C24 replay=$R"
    grep -E "^error" -A6 "$SS_LOG" | head -30
    exit 1
  fi
  echo "harness error: sendsync crate failed to build for another reason" >&2; tail -30 "$SS_LOG" >&2; exit 2
fi

# ---- Part 2: Miri ----------------------------------------------------------------------------
# Variants 0-1 are "cold" programs (threads race cold statics: parse + compile + execute, then
# shared objects); variants 2-5 are "hot" programs (3-4 threads execute the same shared compiled
# queries at the same time for most of the interpreted time). quick: one cold and one hot
# variant, 10 seeds each; thorough: all six variants, 32 seeds each.
if [ "$MODE" = "thorough" ]; then NVAR=6; PER=32; else NVAR=2; PER=10; fi
RATES=(0.01 0.05 0.2)
BASE=$(( (SEED % 100000) * 64 ))
PIDS=(); FILES=(); METAS=()
# build once (not in parallel)
( cd "$VERIF_DIR/mirisim" && cargo +nightly miri setup >/dev/null 2>&1 ) || true
for V in $(seq 0 $((NVAR-1))); do
  if [ "$MODE" = "thorough" ]; then VARIANT=$V
  elif [ $V -eq 0 ]; then VARIANT=$(( SEED % 2 ))
  else VARIANT=$(( 2 + SEED % 4 )); fi
  RATE=${RATES[$(( (SEED / 7 + V) % 3 ))]}
  FIRST=$(( BASE + V * PER )); LAST=$(( FIRST + PER ))
  OUT="$VERIF_DIR/target/miri-$V.log"
  run_miri "$VARIANT" "$FIRST" "$LAST" "$RATE" "$OUT" &
  PIDS+=($!); FILES+=("$OUT"); METAS+=("$VARIANT $FIRST $LAST $RATE")
  # at most 2 many-seeds batches at a time: each already runs its seeds in parallel
  if [ $(( (V + 1) % 2 )) -eq 0 ]; then wait; fi
done
wait

T1=$(date +%s.%N)
python3 - "$MODE" "$SEED" "$T0" "$T1" "$VERIF_DIR" "${#FILES[@]}" "${FILES[@]}" "${METAS[@]}" <<'PY'
import json, re, sys, os
mode, seed, t0, t1, vdir, n = sys.argv[1], int(sys.argv[2]), float(sys.argv[3]), float(sys.argv[4]), sys.argv[5], int(sys.argv[6])
files = sys.argv[7:7+n]; metas = sys.argv[7+n:7+2*n]
runs = 0; ok = 0; inter = set(); failing = []; harness = []; samples = []
for f, m in zip(files, metas):
    variant, first, last, rate = m.split()
    text = open(f, errors="replace").read()
    seeds = int(last) - int(first)
    n_ok = len(re.findall(r"^RESULT ok", text, re.M))
    runs += seeds; ok += n_ok
    for line in re.findall(r"^INTERLEAVING (.*)$", text, re.M):
        inter.add(line)
        if len(samples) < 3: samples.append({"variant": int(variant), "preemption_rate": float(rate), "checkpoint_log": line})
    bad = re.findall(r"FAILING SEED: (\d+)", text)
    if "error: Undefined Behavior" in text or "Data race detected" in text or "RESULT violation" in text or bad or "MISMATCH" in text:
        s = int(bad[0]) if bad else int(first)
        m_err = re.search(r"(error: [^\n]*(?:\n[^\n]*){0,12})", text)
        failing.append({"variant": int(variant), "miri_seed": s, "preemption_rate": float(rate), "detail": (m_err.group(1) if m_err else text[-1500:])})
    elif n_ok != seeds:
        harness.append(f"{f}: {n_ok} of {seeds} seeds reported RESULT ok\n" + text[-1500:])
code = 0
if harness and not failing:
    sys.stderr.write("harness error: miri run incomplete\n" + harness[0] + "\n"); sys.exit(2)
for fl in failing[:1]:
    p = os.path.join(vdir, "replays", f"C24-{seed}-{fl['variant']}-{fl['miri_seed']}.json")
    json.dump({"version":1,"property":"C24","engine":"mirisim","kind":"miri","verif_seed":seed, **{k:fl[k] for k in ("variant","miri_seed","preemption_rate")},
               "violation":{"class":"concurrent-results-differ-or-race-or-ub","detail":fl["detail"]}}, open(p,"w"), indent=1)
    print(f"VIOLATION property=C24 replay={p}"); print("  " + fl["detail"].splitlines()[0] if fl["detail"] else ""); code = 1
wall = t1 - t0
ev = {"property_id":"C24","tier":"thorough" if mode=="thorough" else "quick","seed":seed,"level":"exploration",
 "coverage":{"evaluations":max(runs,1),"distinct_nontrivial":len(inter),
  "rule":"each evaluation = one Miri execution (one -Zmiri-seed = one repeatable thread interleaving) of mirisim. Cold variants: 2-3 threads released from a barrier with cold statics, each parsing one of two schemas that share all names, compiling and executing a query (racing the OnceLock statics of schema/mod.rs, ir/mod.rs, ir/types/base.rs), then 3 threads executing six shared never-executed Arc<IndexedQuery> in the same order with two different argument sets and compiling a query of their own over one shared Arc<Schema>. Hot variants: 3-4 threads, each over a dataset of its own, executing the variant focus query three times and then the six shared compiled queries, at the same time. The six queries cover folds with count filters/tags, nested outputs, @optional, @recurse, a coercion through an interface edge, __typename, and every filter family with variable and with tag operands (ordering, =/!=, one_of/not_one_of, has_prefix/has_suffix/has_substring, regex/not_regex, is_not_null); thread results must equal a sequential recomputation with the same arguments, Miri must report no data race or UB; distinct_nontrivial = distinct checkpoint logs (thread ids appended under a mutex at every adapter call), i.e. distinct observed interleavings; plus a compile-time Send+Sync assertion for Schema, IndexedQuery, IRQuery, InterpretedQuery, FieldValue, Type, EdgeParameters",
  "samples":samples,"miri_seeds_run":runs,"miri_seeds_ok":ok,"fault_kinds_fired":{"F10_thread_preemption_schedules":runs},
  "runs_per_hour": int(runs / wall * 3600) if wall > 0 else 0,
  "components":{"real_code":["trustfall_core (Schema::parse, frontend::parse, interpret_ir) interpreted by Miri with real std::sync"],"stubs":["data source (TinyAdapter, arithmetic graph)","thread scheduler (Miri, seeded)"]},
  "send_sync_types_checked":["Schema","IndexedQuery","IRQuery","InterpretedQuery","FieldValue","Type","EdgeParameters"],"exhaustive":False},
 "assumptions":["Miri's scheduler explores few interleavings per minute; the shared mutable state is five OnceLock statics and Arc reference counts","Miri cannot see code behind FFI (none in trustfall_core)"],
 "wall_s":wall,"violations":len(failing)}
json.dump(ev, open(os.path.join(vdir,"evidence","C24.json"),"w"), indent=1)
print(f"miri_seeds={runs} ok={ok} distinct_interleavings={len(inter)} violations={len(failing)} wall_s={wall:.1f}")
sys.exit(code)
PY
