/* LD_PRELOAD seam for the process-level hash seed (N7 in DESIGN.md).
 * std::collections::HashMap's RandomState takes its keys from getrandom(2); with this shim the
 * keys, and therefore every HashMap/HashSet iteration order in the process, become a pure
 * function of the environment variable VERIF_HASH_SEED. */
#define _GNU_SOURCE
#include <stddef.h>
#include <stdint.h>
#include <stdlib.h>
#include <sys/types.h>

static uint64_t state;
static int initialised;

static uint64_t next(void) {
    uint64_t z = (state += 0x9E3779B97F4A7C15ULL);
    z = (z ^ (z >> 30)) * 0xBF58476D1CE4E5B9ULL;
    z = (z ^ (z >> 27)) * 0x94D049BB133111EBULL;
    return z ^ (z >> 31);
}

static void init(void) {
    if (!initialised) {
        const char *s = getenv("VERIF_HASH_SEED");
        state = s ? strtoull(s, NULL, 10) : 0;
        state = state * 0x2545F4914F6CDD1DULL + 0x1234567ULL;
        initialised = 1;
    }
}

ssize_t getrandom(void *buf, size_t buflen, unsigned int flags) {
    (void)flags;
    init();
    unsigned char *p = buf;
    for (size_t i = 0; i < buflen; i++) {
        if (i % 8 == 0) {
            uint64_t v = next();
            for (size_t j = 0; j < 8 && i + j < buflen; j++) p[i + j] = (unsigned char)(v >> (8 * j));
        }
    }
    return (ssize_t)buflen;
}

int getentropy(void *buf, size_t buflen) {
    return getrandom(buf, buflen, 0) == (ssize_t)buflen ? 0 : -1;
}
