//! C24 part 1: schemas and compiled queries are thread-safe values. If one of these stops being
//! Send + Sync this crate stops compiling, and the diagnostic names the missing bound.
use trustfall_core::interpreter::InterpretedQuery;
use trustfall_core::ir::{EdgeParameters, FieldValue, IRQuery, IndexedQuery, Type};
use trustfall_core::schema::Schema;

fn assert_send_sync<T: Send + Sync + 'static>() {}

pub fn all() {
    assert_send_sync::<Schema>();
    assert_send_sync::<IndexedQuery>();
    assert_send_sync::<IRQuery>();
    assert_send_sync::<InterpretedQuery>();
    assert_send_sync::<FieldValue>();
    assert_send_sync::<Type>();
    assert_send_sync::<EdgeParameters>();
}
