#!/bin/bash
# Run registered checks against /repo with a patch applied, in a scratch target directory, then
# restore /repo.   usage: try_patch.sh <patch.diff> <tier> <ID> [<ID> ...]
set -u
PATCH="$1"; TIER="$2"; shift 2
SCR=/tmp/tfseed
[ -z "$(git -C /repo status --porcelain)" ] || { echo "repo not clean" >&2; exit 2; }
mkdir -p $SCR/verif/evidence $SCR/verif/replays $SCR/verif/target
cp /verif/known_findings.json $SCR/verif/
cp /verif/target/getrandom_shim.so $SCR/verif/target/ 2>/dev/null
git -C /repo apply "$PATCH" || { echo "patch does not apply" >&2; exit 2; }
trap 'git -C /repo checkout -- . ; git -C /repo clean -fdq -- trustfall_core/tests 2>/dev/null' EXIT
( cd /verif/sim && CARGO_TARGET_DIR=$SCR/target cargo build --release --offline -q 2>&1 | tail -5 )
for ID in "$@"; do
  case "$ID" in
    C14) OUT=$(VERIF_DIR=$SCR/verif $SCR/target/release/tfsim hashsim $TIER 2>&1); RC=$? ;;
    C24)
      if ! ( cd /verif/sendsync && CARGO_TARGET_DIR=$SCR/target-ss cargo build --offline -q 2>/dev/null ); then OUT="sendsync crate does not compile"; RC=1;
      else
        OUT=$( cd /verif/mirisim && CARGO_TARGET_DIR=$SCR/target-miri MIRIFLAGS="-Zmiri-many-seeds=0..${MIRI_SEEDS:-16} -Zmiri-preemption-rate=0.05" cargo +nightly miri run --offline -q -- ${MIRI_VARIANT:-0} 2>&1 | grep -E "RESULT|MISMATCH|FAILING|error|Data race|Undefined" | sort | uniq -c ); 
        if echo "$OUT" | grep -Eq "violation|MISMATCH|FAILING|error|Data race|Undefined"; then RC=1; else RC=0; fi
      fi ;;
    *) OUT=$(VERIF_DIR=$SCR/verif $SCR/target/release/tfsim check $ID $TIER 2>&1); RC=$? ;;
  esac
  echo "== $ID tier=$TIER exit=$RC"
  echo "$OUT" | grep -E "^VIOLATION|class=|workload |^runs=|^workloads=|RESULT|MISMATCH|FAILING|error|HARNESS|does not compile" | cut -c1-400 | head -8
done
