#!/bin/bash
# Independently confirm a sub-agent's seeded change in its scratch worktree:
#   (1) the worktree's tracked diff is exactly out/patch.diff,
#   (2) with the change: workspace builds, every existing test passes, the demonstration fails,
#   (3) without the change: the demonstration passes.
# usage: verify_seed.sh /tmp/seedwork/<ID-slot> <package> <demo-test-target> [extra cargo args for the demo-only run]
set -u
D="$1"; PKG="$2"; DEMO="$3"; shift 3
WT="$D/wt"; OUT="$D/out"
export CARGO_NET_OFFLINE=true
# trustfall_stubgen tests build under $TMPDIR/trustfall_stubgen: keep concurrent worktrees apart
mkdir -p "$D/tmp"; export TMPDIR="$D/tmp"
cd "$WT" || exit 2
git diff > "$D/verify_tracked.diff"
if ! diff -q <(grep -v '^index ' "$D/verify_tracked.diff") <(grep -v '^index ' "$OUT/patch.diff") >/dev/null; then
  echo "NOTE: tracked diff differs from out/patch.diff; resetting worktree to HEAD + patch.diff"
  git checkout -- . && git apply "$OUT/patch.diff" || { echo "patch does not apply"; exit 2; }
fi
echo "== with change: full workspace suite"
cargo test --workspace --no-fail-fast --offline >"$D/verify_with.log" 2>&1
grep -E "^test result:|Running|^error: test failed|^error\[" "$D/verify_with.log" | awk '/Running/{t=$0} /test result: FAILED/{print "FAILED-TARGET: " t; print $0} /^error/{print}' | head -20
PASS=$(grep -E "^test result: ok" "$D/verify_with.log" | awk '{s+=$4} END{print s+0}')
FAILN=$(grep -E "^test result:" "$D/verify_with.log" | awk '{s+=$6} END{print s+0}')
echo "with-change: passed=$PASS failed=$FAILN"
echo "failed tests:"; grep -E "^test .* \.\.\. FAILED" "$D/verify_with.log" | head -20
echo "== without change: demonstration only"
git apply -R "$OUT/patch.diff" || { echo "cannot reverse"; exit 2; }
cargo test -p "$PKG" --offline --test "$DEMO" "$@" >"$D/verify_without.log" 2>&1
RC=$?
grep -E "^test result:" "$D/verify_without.log"
echo "without-change demo exit=$RC"
git apply "$OUT/patch.diff"
