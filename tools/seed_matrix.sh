#!/bin/bash
# Run registered checks (quick tier) against every kept seeded change, one after the other, and
# write /verif/seeded/matrix.json.   usage: seed_matrix.sh [<seed-id> ...]   (default: all)
# For each seeded/<id>/meta.json the checks run are: its own property's check + those listed in
# meta.json "also_run" (default: none).
set -u
cd /verif/seeded || exit 2
IDS=("$@"); [ ${#IDS[@]} -eq 0 ] && IDS=($(ls -d */ | tr -d /))
for S in "${IDS[@]}"; do
  [ -f "$S/meta.json" ] || continue
  PROP=$(python3 -c "import json;print(json.load(open('$S/meta.json'))['property'])")
  ALSO=$(python3 -c "import json;print(' '.join(json.load(open('$S/meta.json')).get('also_run',[])))")
  if [ "$PROP" = "C24" ] && [ -z "${WITH_C24:-}" ]; then echo "##### $S skipped (C24: run with WITH_C24=1 MIRI_VARIANT=.. MIRI_SEEDS=..)"; continue; fi
  echo "##### $S (property $PROP; also: $ALSO)"
  /verif/tools/try_patch.sh /verif/seeded/$S/patch.diff quick $PROP $ALSO 2>&1 | grep -E "^== |^VIOLATION|class=|^runs=|RESULT|MISMATCH|FAILING" | cut -c1-300 | tee /verif/seeded/$S/last_run.txt
done
