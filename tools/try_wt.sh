#!/bin/bash
# Like try_patch.sh but without touching /repo: builds a scratch copy of the simulator against a
# sub-agent's scratch worktree (which has the change applied) and runs tfsim checks there.
# Exploratory only: the recorded matrix (seeded/*/last_run.txt) comes from try_patch.sh on /repo.
#   usage: try_wt.sh <worktree> <tier> <ID> [<ID> ...]      (tfsim properties and C14 only)
set -u
WT="$1"; TIER="$2"; shift 2
SCR=/tmp/tfwt
mkdir -p $SCR/verif/evidence $SCR/verif/replays $SCR/verif/target
rm -rf $SCR/sim; cp -r /verif/sim $SCR/sim; rm -rf $SCR/sim/.cargo
sed -i "s#path = \"/repo/trustfall_core\"#path = \"$WT/trustfall_core\"#" $SCR/sim/Cargo.toml
sed -i "s#/repo/trustfall_core/src/interpreter/execution.rs#$WT/trustfall_core/src/interpreter/execution.rs#" $SCR/sim/src/runner.rs
cp /verif/known_findings.json $SCR/verif/; cp /verif/target/getrandom_shim.so $SCR/verif/target/ 2>/dev/null
( cd $SCR/sim && CARGO_NET_OFFLINE=true CARGO_TARGET_DIR=$SCR/target cargo build --release --offline -q 2>&1 | grep -E "^error" -A8 | head -20 )
for ID in "$@"; do
  case "$ID" in
    C14) OUT=$(VERIF_DIR=$SCR/verif $SCR/target/release/tfsim hashsim $TIER 2>&1); RC=$? ;;
    *) OUT=$(VERIF_DIR=$SCR/verif $SCR/target/release/tfsim check $ID $TIER 2>&1); RC=$? ;;
  esac
  echo "== $ID tier=$TIER exit=$RC"
  echo "$OUT" | grep -E "^VIOLATION|class=|^runs=|^workloads=" | cut -c1-400 | head -6
done
