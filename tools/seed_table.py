#!/usr/bin/env python3
"""Regenerate the table of section 10.6 of DESIGN.md from seeded/*/meta.json."""
import json, glob, re
rows=[]
for f in sorted(glob.glob('/verif/seeded/*/meta.json')):
    m=json.load(open(f))
    det='; '.join(f"{k}: {v}" for k,v in m['detected_by'].items())
    rows.append(f"| {m['id']} | {m['property']} | {m['summary']} | {m['needs_to_manifest']} | {det} |")
table="\n".join(rows)
p='/verif/DESIGN.md'; s=open(p).read()
start=s.index("| id | property | the change (one line) | needs | result at the quick tier |")
hdr_end=s.index("\n", s.index("|----|", start))+1
end=s.index("\n\n", hdr_end)
s=s[:hdr_end]+table+s[end:]
open(p,'w').write(s)
print(len(rows),"rows")
