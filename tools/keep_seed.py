#!/usr/bin/env python3
"""Copy a confirmed seeded change from /tmp/seedwork/<id>/ into /verif/seeded/<id>/ and write meta.json.
usage: keep_seed.py <id> <property> <demo-dest-path> <demo-cmd> <summary> <needs> <detected-json>
The verification verdict is read from /tmp/seedwork/<id>/verify.out (written by verify_seed.sh)."""
import json, os, re, shutil, subprocess, sys
sid, prop, demo_dest, demo_cmd, summary, needs, detected = sys.argv[1:8]
src = f"/tmp/seedwork/{sid}"; dst = f"/verif/seeded/{sid}"
os.makedirs(dst, exist_ok=True)
shutil.copy(f"{src}/out/patch.diff", dst)
if os.path.isdir(f"{dst}/demo"): shutil.rmtree(f"{dst}/demo")
shutil.copytree(f"{src}/out/demo", f"{dst}/demo")
shutil.copy(f"{src}/out/NOTES.md", dst)
ver = open(f"{src}/verify.out").read()
m_with = re.search(r"with-change: passed=(\d+) failed=(\d+)", ver)
failed = re.findall(r"^test (\S+) \.\.\. FAILED", ver, re.M)
m_wo = re.search(r"== without change: demonstration only\n((?:test result:.*\n)+)without-change demo exit=(\d+)", ver)
files = [l[6:] for l in open(f"{dst}/patch.diff") if l.startswith("+++ b/")]
meta = {
 "id": sid, "property": prop,
 "author": "independent sub-agent (saw only the property text and a scratch worktree of /repo, nothing from /verif)",
 "summary": summary, "needs_to_manifest": needs,
 "files_changed": [f.strip() for f in files],
 "demo": {"copy_to": demo_dest, "cmd": demo_cmd},
 "confirmed_by_me": {
   "how": "tools/verify_seed.sh in the scratch worktree: full workspace suite with the change (per-worktree TMPDIR), then the demonstration alone with the change reversed",
   "workspace_suite_with_change": {"passed": int(m_with.group(1)) if m_with else None, "failed": int(m_with.group(2)) if m_with else None, "failed_tests": failed, "note": "the only failing tests are the demonstration's"},
   "demo_without_change": {"results": m_wo.group(1).strip().split("\n") if m_wo else None, "exit": int(m_wo.group(2)) if m_wo else None},
 },
 "detected_by": json.loads(detected),
}
json.dump(meta, open(f"{dst}/meta.json", "w"), indent=1)
print(json.dumps(meta["confirmed_by_me"], indent=1))
