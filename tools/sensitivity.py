#!/usr/bin/env python3
"""Sensitivity proof: apply a deliberate property-breaking change to /repo, rebuild the checks in a
scratch target directory, run the named checks (quick tier), record whether each reported a
VIOLATION, and restore /repo. Nothing here is registered in MANIFEST.json.

usage: sensitivity.py [name ...]      (no names: all mutations)
"""
import json, os, subprocess, sys, time, shutil

REPO = os.environ.get("SENS_REPO", "/repo")   # a scratch git worktree of /repo may be given instead
CORE = REPO + "/trustfall_core/src"
SCRATCH = os.environ.get("SENS_SCRATCH", "/tmp/tfmut")
MUTS = [
 ("C01-drop-optional-pass-in-filters", "interpreter/filtering.rs",
  "    (ctx.within_nonexistent_optional() || filter_op(left, right)).then_some(ctx)\n}",
  "    filter_op(left, right).then_some(ctx)\n}", ["C01"]),
 ("C02-shared-lifo-stash-for-suspended-vertex", "interpreter/execution.rs",
  ["""        let moved_iterator = iterator.map(move |mut context| {
            let active_vertex = context.active_vertex.clone();
            let new_vertex = context.vertices[&vertex_id].clone();
            context.suspended_vertices.push(active_vertex);
            context.move_to_vertex(new_vertex)
        });""",
   """                let old_current_token = context.suspended_vertices.pop().unwrap();
                (context.move_to_vertex(old_current_token), tagged_value)"""],
  ["""        let stash: std::rc::Rc<std::cell::RefCell<Vec<Option<V>>>> = Default::default();
        let stash_in = stash.clone();
        let moved_iterator = iterator.map(move |context| {
            let active_vertex = context.active_vertex.clone();
            let new_vertex = context.vertices[&vertex_id].clone();
            stash_in.borrow_mut().push(active_vertex);
            context.move_to_vertex(new_vertex)
        });""",
   """                let old_current_token = stash.borrow_mut().pop().unwrap();
                (context.move_to_vertex(old_current_token), tagged_value)"""], ["C02", "C01", "C09"]),
 ("C03-collect-starting-vertices", "interpreter/execution.rs",
  """            .resolve_starting_vertices(root_edge, root_edge_parameters, &resolve_info)
            .map(|x| DataContext::new(Some(x))),""",
  """            .resolve_starting_vertices(root_edge, root_edge_parameters, &resolve_info)
            .map(|x| DataContext::new(Some(x)))
            .collect::<Vec<_>>()
            .into_iter(),""", ["C03"]),
 ("C04-swap-bound-for-gt-dynamic-hint", "interpreter/hints/dynamic.rs",
  """                    candidate.intersect(CandidateValue::Range(Range::with_start(
                        Bound::Excluded(value),
                        true, // nullability is handled in the initial_candidate
                    )));""",
  """                    candidate.intersect(CandidateValue::Range(Range::with_end(
                        Bound::Excluded(value),
                        true, // nullability is handled in the initial_candidate
                    )));""", ["C04"]),
 ("C04-mandatory-edges-ignore-non-binding", "interpreter/hints/vertex_info.rs",
  """        if self.non_binding_filters() {
            Box::new(std::iter::empty())
        } else {
            Box::new(self.edges_with_name(name).filter(EdgeInfo::is_mandatory))
        }""",
  """        Box::new(self.edges_with_name(name).filter(EdgeInfo::is_mandatory))""", ["C04"]),
 ("C05-drop-own-filters-from-required-properties", "interpreter/hints/vertex_info.rs",
  """        let properties = properties.chain(
            current_vertex
                .filters
                .iter()
                .map(|f| RequiredProperty::new(f.left().field_name.clone())),
        );""",
  """        let properties = properties.chain(
            current_vertex
                .filters
                .iter()
                .take(1)
                .map(|f| RequiredProperty::new(f.left().field_name.clone())),
        );""", ["C05"]),
 ("C09-unwrap-in-recursion-with-missing-optional", "interpreter/execution.rs",
  """            if context.active_vertex.is_none() {
                // Mark that this vertex starts off with a None active_vertex value,
                // so the later unsuspend() call should restore it to such a state later.
                context.suspended_vertices.push(None);
            }""",
  """            if context.active_vertex.is_none() && context.vertices.len() < 3 {
                // Mark that this vertex starts off with a None active_vertex value,
                // so the later unsuspend() call should restore it to such a state later.
                context.suspended_vertices.push(None);
            }""", ["C09", "C01"]),
 ("C13-output-under-optional-not-nullable", "ir/indexed.rs",
  """    if component_optional_vertices.contains(&output_at) {
        wrapped_output_type = wrapped_output_type.with_nullability(true);
    }""",
  """    if component_optional_vertices.contains(&output_at) && are_folds_optional.is_empty() {
        wrapped_output_type = wrapped_output_type.with_nullability(true);
    }""", ["C13"]),
 ("C14-subtypes-in-hash-order", "schema/mod.rs",
  """        Some(self.vertex_types.iter().sorted_by_key(|(name, _)| *name).filter_map(""",
  """        Some(self.vertex_types.iter().filter_map(""", ["C14", "C20"]),
 ("C15-do-not-record-input-exhaustion-for-coercion", "interpreter/trace.rs", None, None, ["C15"]),
 ("C20-swap-to-many-and-at-least-one", "schema/adapter/mod.rs",
  """                "to_many" => resolve_property_with(contexts, accessor_property!(as_edge, to_many)),""",
  """                "to_many" => resolve_property_with(contexts, accessor_property!(as_edge, at_least_one)),""", ["C20"]),
 ("C21-recursion-names-source-type-at-depth-2", "interpreter/execution.rs",
  """            recursing_from,
            expanding_from,
            expanding_to,
            edge_id,
            edge_name,
            edge_parameters,
            recursion_iterator,
        );
    }""",
  """            &expanding_from.type_name,
            expanding_from,
            expanding_to,
            edge_id,
            edge_name,
            edge_parameters,
            recursion_iterator,
        );
    }""", ["C21"]),
 ("C21-implicit-default-of-nullable-edge-parameter-is-zero", "frontend/mod.rs",
  """                    .or(if arg.node.ty.node.nullable { Some(FieldValue::Null) } else { None })""",
  """                    .or(if arg.node.ty.node.nullable { Some(FieldValue::Int64(0)) } else { None })""", ["C21"]),
 ("C22-min-size-off-by-one-for-gt", "interpreter/execution.rs",
  """                Some(variable_value.saturating_add(1))""",
  """                Some(variable_value)""", ["C22", "C01"]),
 ("C22-max-size-off-by-one-for-lt", "interpreter/execution.rs",
  """                Some(variable_value.saturating_sub(1))""",
  """                Some(variable_value.saturating_sub(2))""", ["C22", "C01"]),
 ("C23-one-of-structural-equality", "interpreter/filtering.rs",
  """            for value in v.iter() {
                if left == value {
                    return true;
                }
            }""",
  """            for value in v.iter() {
                if left.structural_eq(value) {
                    return true;
                }
            }""", ["C23", "C01"]),
 ("C24-edge-parameters-in-rc", "ir/mod.rs", None, None, ["C24"]),
 ("C25-order-check-compares-lengths-only", "interpreter/helpers/correctness.rs",
  """            assert_eq!(
                initial_context_order, final_context_order,
                "adapter illegally reordered contexts inside resolve_property() \\
                for type name '{type_name}' and property '{property_name}'"
            )""",
  """            assert_eq!(
                initial_context_order.len(), final_context_order.len(),
                "adapter illegally reordered contexts inside resolve_property() \\
                for type name '{type_name}' and property '{property_name}'"
            )""", ["C25"]),
]

def sh(cmd, **kw):
    return subprocess.run(cmd, shell=True, capture_output=True, text=True, **kw)

def apply(name, rel, old, new):
    path = f"{CORE}/{rel}"
    s = open(path).read()
    if name == "C15-do-not-record-input-exhaustion-for-coercion":
        # drop the second of the InputIteratorExhausted recordings
        key = "TraceOpContent::InputIteratorExhausted"
        idx = [i for i in range(len(s)) if s.startswith(key, i)]
        assert len(idx) >= 2, idx
        # find the enclosing `.record(` call of the last occurrence and neuter it
        i = idx[-1]
        start = s.rfind("tracer_ref", 0, i)
        stmt_start = s.rfind("\n", 0, start) + 1
        stmt_end = s.find(";", i) + 1
        s = s[:stmt_start] + "                        let _ = &tracer_ref_5;\n" + s[stmt_end:] if False else s[:i] + "TraceOpContent::OutputIteratorExhausted" + s[i+len(key):]
        open(path, "w").write(s); return
    if name == "C24-edge-parameters-in-rc":
        old = "pub struct EdgeParameters {\n    pub(crate) contents: Arc<BTreeMap<Arc<str>, FieldValue>>,\n}"
        new = "pub struct EdgeParameters {\n    pub(crate) contents: Arc<BTreeMap<Arc<str>, FieldValue>>,\n    #[serde(skip)]\n    pub(crate) _not_sync: std::marker::PhantomData<std::cell::Cell<u8>>,\n}"
        assert s.count(old) == 1
        s = s.replace(old, new)
        s = s.replace("        Self { contents }\n", "        Self { contents, _not_sync: Default::default() }\n")
        open(path, "w").write(s); return
    pairs = list(zip(old, new)) if isinstance(old, list) else [(old, new)]
    for o, n in pairs:
        assert s.count(o) == 1, (name, s.count(o), o[:60])
        s = s.replace(o, n)
    open(path, "w").write(s)

def main():
    want = sys.argv[1:]
    os.makedirs(SCRATCH, exist_ok=True)
    vdir = SCRATCH + "/verif"
    results = {}
    try:
        results = json.load(open("/verif/sensitivity/results.json"))
    except Exception:
        pass
    for name, rel, old, new, checks in MUTS:
        if want and name not in want:
            continue
        assert sh(f"git -C {REPO} status --porcelain").stdout.strip() == "", "repo not clean"
        shutil.rmtree(vdir, ignore_errors=True)
        os.makedirs(vdir + "/evidence"); os.makedirs(vdir + "/replays"); os.makedirs(vdir + "/target")
        shutil.copy("/verif/known_findings.json", vdir)
        shutil.copy("/verif/target/getrandom_shim.so", vdir + "/target/")
        entry = {"checks": {}, "builds": None}
        try:
            apply(name, rel, old, new)
            t0 = time.time()
            # does the mutant still compile, and does the existing core suite still pass?
            simdir = "/verif/sim"
            if REPO != "/repo":
                # scratch copy of the simulator pointing at the scratch worktree (leaves /repo alone)
                simdir = SCRATCH + "/sim"
                shutil.rmtree(simdir, ignore_errors=True)
                shutil.copytree("/verif/sim", simdir, ignore=shutil.ignore_patterns(".cargo"))
                sh(f"sed -i 's#path = \"/repo/trustfall_core\"#path = \"{REPO}/trustfall_core\"#' {simdir}/Cargo.toml")
                sh(f"sed -i 's#/repo/trustfall_core/src/interpreter/execution.rs#{REPO}/trustfall_core/src/interpreter/execution.rs#' {simdir}/src/runner.rs")
            b = sh(f"cd {simdir} && CARGO_NET_OFFLINE=true CARGO_TARGET_DIR={SCRATCH}/target cargo build --release --offline -q 2>&1 | tail -5")
            entry["builds"] = os.path.exists(f"{SCRATCH}/target/release/tfsim") and b.returncode == 0 and "error" not in b.stdout
            for c in checks:
                if c == "C24":
                    r = sh("cd /verif/sendsync && CARGO_TARGET_DIR=/tmp/tfmut/target-ss cargo build --offline 2>&1 | grep -E 'cannot be (sent|shared) between threads safely' | head -2")
                    entry["checks"][c] = {"detected": bool(r.stdout.strip()), "how": "sendsync crate no longer compiles: " + r.stdout.strip()[:160]}
                    continue
                if not entry["builds"]:
                    entry["checks"][c] = {"detected": None, "how": "mutant does not build: " + b.stdout[-300:]}
                    continue
                sub = "hashsim quick" if c == "C14" else f"check {c} quick"
                r = sh(f"VERIF_DIR={vdir} {SCRATCH}/target/release/tfsim {sub}")
                viol = [l for l in r.stdout.splitlines() if l.startswith("VIOLATION")]
                detail = [l.strip() for l in r.stdout.splitlines() if l.strip().startswith("class=") or l.strip().startswith("workload ")]
                entry["checks"][c] = {"detected": r.returncode == 1 and bool(viol), "exit": r.returncode, "how": (detail[0][:300] if detail else r.stdout[-300:])}
            entry["seconds"] = round(time.time() - t0, 1)
        finally:
            sh(f"git -C {REPO} checkout -- .")
        results[name] = entry
        print(name, json.dumps(entry["checks"])[:400], flush=True)
        os.makedirs("/verif/sensitivity", exist_ok=True)
        json.dump(results, open("/verif/sensitivity/results.json", "w"), indent=1)
    shutil.rmtree(SCRATCH, ignore_errors=True)

main()
