#!/usr/bin/env python3
"""Writes /verif/MANIFEST.json from one table, so the manifest stays consistent with what is built."""
import json, sys

TFSIM = "tfsim: seeded deterministic simulation (PRNG choice tapes) of the engine<->adapter<->consumer pull protocol"
checks = {}
def add(pid, text, note, technique, engine="tfsim", category="exploration", design_ref=None):
    checks[pid] = {
        "property_id": pid,
        "quick_cmd": f"./check {pid} quick",
        "thorough_cmd": f"./check {pid} thorough",
        "evidence_file": f"/verif/evidence/{pid}.json",
        "replay_cmd_template": f"./check {pid} --replay {{path}}",
        "engine": engine,
        "level_claimed": {"category": category, "text": text, "design_ref": design_ref or f"DESIGN.md section 4, {pid}"},
        "level_note": note,
        "technique": technique,
    }

MODEL_NOTE = "Trusted base: the reference model sim/src/model.rs (written from spec.md / the language reference; silent on invalid regex patterns and list ordering; sets instead of multisets on non-forest recursion data), the generators' validity rules, the regex crate. Sampling over seeds, not enumeration."
ENGINE_NOTE = "Engine-vs-engine oracle, no reference model involved. Only adapters expressible by SimAdapter's knobs (order-preserving read-ahead, buffering, eager neighbor iterators, hint use, consumer cancellation, interleaved live queries). Sampling over seeds, not enumeration."

add("C01", "Seeded exploration: for every generated (schema, dataset, query, arguments) the real engine is run over the simulated adapter under the lazy schedule and under a random read-ahead schedule that also prunes by hints; both row multisets must equal the denotational reference model's. The simulator contributes that the answer is the model's for every legal adapter behaviour explored, not just the one the suite's adapters have.", MODEL_NOTE, "deterministic simulation: seeded schedule search + refinement against an executable reference model")
add("C02", "Seeded exploration of the adapter pull/yield schedule space: per resolver call prefetch-inside-the-call (the issue #205 window), chunked refill, drain-all, eager neighbor iterators, and 2-3 interleaved live result iterators on one adapter; the row sequence must be identical to the strictly lazy baseline and the engine must not panic.", ENGINE_NOTE, "deterministic simulation: seeded search over read-ahead schedules and interleavings, compared with the lazy baseline")
add("C03", "History check over the recorded adapter event log under the no-read-ahead schedule, with the consumer cancelling at tape-chosen rows: starting vertices pulled at row k == least number of leading starting vertices that contribute k rows (counts measured with the engine itself, one run per starting vertex), nothing pulled before the first next(), no adapter event after the iterator is dropped.", ENGINE_NOTE, "deterministic simulation: consumer-cancellation fault injection + history check on the event log")
add("C04", "Buggify-style exploration: each hint site (static candidates, dynamically resolved candidates, mandatory edges, nested destinations) is an optional fast path that the simulated adapter takes at a tape-chosen subset of call sites; the row sequence must equal the hints-ignored run's, and the engine must not panic while resolving hints.", ENGINE_NOTE + " Never prunes on coerced_to_type() (not promised).", "deterministic simulation: cooperative fault points (hint pruning) at a random subset of sites per run")
add("C05", "Online monitor in the simulated adapter in every configuration (lazy, random schedules with hint pruning and its re-entrant calls, cancellation): every resolve_property(vid, p) must find p in required_properties() of that call and in the list reported when vid was resolved.", ENGINE_NOTE, "deterministic simulation: history invariant over adapter call events")
add("C09", "Seeded exploration with arguments biased to accepted-but-unusual values, under lazy and random schedules with hint pruning, consumer cancellation and interleaved live queries; no panic located outside the harness, and no run exceeding an event cap proportional to the reference model's work (bounded liveness).", ENGINE_NOTE + " A panic raised from sim/src/* is a harness error (exit 2).", "deterministic simulation: seeded schedule/fault search with panic capture and bounded-progress check")
add("C13", "Per-row invariant in every configuration: key set == declared outputs == names derived from the query text; each value valid for the declared type (validity re-implemented from the type text); declared type == the documented rule computed from the harness AST.", MODEL_NOTE, "deterministic simulation: per-event invariant on ROW events across schedules and cancellation paths")
add("C21", "Online contract monitor at every adapter call and every pulled context, in every configuration: type defined; property/edge defined on it or __typename; coercion target a subtype; edge parameters exactly the declared set, of the declared type, equal to what the query text plus schema defaults say; every non-null active vertex an instance of the named type.", ENGINE_NOTE, "deterministic simulation: per-event invariant on CALL/PULL events")

not_applicable = {
    "C06": "pure set algebra on two in-memory values (hints/candidates.rs): no party, schedule, fault or interleaving to simulate; input generation would be property-based testing, a different technique",
    "C07": "each filter operator is a pure function of two values (filtering.rs): nothing to schedule or fault; the C01 model carries an independent copy of the definitions but the exhaustive operand-pair claim is not made",
    "C08": "PartialEq/PartialOrd laws on FieldValue triples: pure function of inputs",
    "C10": "frontend::parse takes one complete in-memory string: no stream, partial read, cancellation or interleaving; a fuzzing target, not a simulation target",
    "C11": "structural IR invariants are a pure function of (schema, query text)",
    "C12": "argument validation is a pure function of (compiled query, argument map)",
    "C16": "serde / Display-parse round trips: pure",
    "C17": "lattice laws of Type: pure",
    "C18": "decoding a row into a struct: pure",
    "C19": "Schema::parse on a complete document: pure; fuzzing target",
    "C26": "stub generation followed by rustc: text-to-text function plus a compiler run; no runtime behaviour to schedule",
    "C27": "pyo3 boundary: the only interleaving (engine pulling a Python generator) is the protocol C02 decides on the Rust side; CPython/GIL cannot be put under a seeded scheduler here (Miri cannot cross FFI)",
}
NOT_BUILT = "claimed in DESIGN.md, check not built yet in this session (kept here until its check is registered)"
planned = ["C14", "C15", "C20", "C22", "C23", "C24", "C25"]

extra = {}
def load_extra():
    try:
        sys.path.insert(0, "/verif")
        import manifest_extra
        manifest_extra.register(add)
    except ImportError:
        pass
load_extra()

for p in planned:
    if p not in checks:
        not_applicable[p] = NOT_BUILT

manifest = {
    "version": 1,
    "setup_cmd": "./setup.sh",
    "hooks": {
        "guard": "none (no source hooks: every claimed property is reached through existing public seams)",
        "enable": "n/a: checks build /repo/trustfall_core unmodified as a cargo path dependency of /verif/sim (release profile with debug-assertions and overflow-checks on)",
        "baseline_off_cmd": "cd /repo && cargo test --workspace --no-fail-fast --offline",
        "source_commits": [],
        "add_only": True,
    },
    "engines": [
        {"name": "tfsim", "path": "/verif/sim", "serves_properties": sorted(k for k, v in checks.items() if v["engine"] == "tfsim"), "kind_free_text": TFSIM},
    ],
    "checks": [checks[k] for k in sorted(checks)],
    "not_applicable": [{"property_id": k, "reason": v} for k, v in sorted(not_applicable.items())],
    "notes": "Genuine defects found are listed in known_findings.json (status known / fixed); repairs are the 'fix:' commits in /repo. See DESIGN.md section 7.",
}
json.dump(manifest, open("/verif/MANIFEST.json", "w"), indent=1)
print("checks:", sorted(checks), "not_applicable:", sorted(not_applicable))
