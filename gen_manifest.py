#!/usr/bin/env python3
"""Writes /verif/MANIFEST.json from one table, so the manifest stays consistent with what is built."""
import json, sys

TFSIM = "tfsim: seeded deterministic simulation (PRNG choice tapes) of the engine<->adapter<->consumer pull protocol"
checks = {}
def add(pid, text, note, technique, engine="tfsim", category="exploration", design_ref=None):
    checks[pid] = {
        "property_id": pid,
        "quick_cmd": f"./check {pid} quick",
        "thorough_cmd": f"./check {pid} thorough",
        "evidence_file": f"/verif/evidence/{pid}.json",
        "replay_cmd_template": f"./check {pid} --replay {{path}}",
        "engine": engine,
        "level_claimed": {"category": category, "text": text, "design_ref": design_ref or f"DESIGN.md section 4, {pid}"},
        "level_note": note,
        "technique": technique,
    }

MODEL_NOTE = "Trusted base: the reference model sim/src/model.rs (written from spec.md / the language reference; silent on invalid regex patterns and list ordering; sets instead of multisets on non-forest recursion data), the generators' validity rules, the regex crate. Sampling over seeds, not enumeration."
ENGINE_NOTE = "Engine-vs-engine oracle, no reference model involved. Only adapters expressible by SimAdapter's knobs (order-preserving read-ahead, buffering, eager neighbor iterators, hint use, consumer cancellation, interleaved live queries). Sampling over seeds, not enumeration."

add("C01", "Seeded exploration: for every generated (schema, dataset, query, arguments) the real engine is run over the simulated adapter under the lazy schedule and under a random read-ahead schedule that also prunes by hints; both row multisets must equal the denotational reference model's. The simulator contributes that the answer is the model's for every legal adapter behaviour explored, not just the one the suite's adapters have.", MODEL_NOTE, "deterministic simulation: seeded schedule search + refinement against an executable reference model")
add("C02", "Seeded exploration of the adapter pull/yield schedule space: per resolver call prefetch-inside-the-call (the issue #205 window), chunked refill, drain-all, eager neighbor iterators, 2-3 interleaved live result iterators on one adapter (same compiled query, and two different compiled queries over one world), and the same data source served through the repository's BasicAdapter blanket impl and helper functions with chunked read-ahead; the row sequence must be identical to the strictly lazy baseline and the engine must not panic.", ENGINE_NOTE, "deterministic simulation: seeded search over read-ahead schedules and interleavings, compared with the lazy baseline")
add("C03", "History check over the recorded adapter event log under the no-read-ahead schedule, with the consumer cancelling at tape-chosen rows: starting vertices pulled at row k == least number of leading starting vertices that contribute k rows (counts measured with the engine itself, one run per starting vertex), nothing pulled before the first next(), no adapter event after the iterator is dropped.", ENGINE_NOTE, "deterministic simulation: consumer-cancellation fault injection + history check on the event log")
add("C04", "Buggify-style exploration: each hint site (static candidates, dynamically resolved candidates, mandatory edges, nested destinations) is an optional fast path that the simulated adapter takes at a tape-chosen subset of call sites; the row sequence must equal the hints-ignored run's, and the engine must not panic while resolving hints.", ENGINE_NOTE + " Never prunes on coerced_to_type() (not promised).", "deterministic simulation: cooperative fault points (hint pruning) at a random subset of sites per run")
add("C05", "Online monitor in the simulated adapter in every configuration (lazy, random schedules with hint pruning and its re-entrant calls, cancellation): every resolve_property(vid, p) must find p in required_properties() of that call and in the list reported when vid was resolved.", ENGINE_NOTE, "deterministic simulation: history invariant over adapter call events")
add("C09", "Seeded exploration with arguments biased to accepted-but-unusual values (and, in a fifth of the cases, values outside the harness's own typing of the variable, which the engine may refuse or accept), under lazy and random schedules with hint pruning, consumer cancellation and interleaved live queries; no panic located outside the harness, and no run exceeding an event cap proportional to the reference model's work (bounded liveness).", ENGINE_NOTE + " A panic raised from sim/src/* is a harness error (exit 2).", "deterministic simulation: seeded schedule/fault search with panic capture and bounded-progress check")
add("C13", "Per-row invariant in every configuration: key set == declared outputs == names derived from the query text; each value valid for the declared type (validity re-implemented from the type text); declared type == the documented rule computed from the harness AST; the engine's own row-construction assertion (inside construct_outputs) firing counts as a violation, because this debug-assertion build panics there where a production build would hand out the malformed row.", MODEL_NOTE, "deterministic simulation: per-event invariant on ROW events across schedules and cancellation paths")
add("C21", "Online contract monitor at every adapter call and every pulled context, in every configuration: type defined; property/edge defined on it or __typename; coercion target a subtype; edge parameters exactly the declared set, of the declared type, equal to what the query text plus schema defaults say; every non-null active vertex an instance of the named type.", ENGINE_NOTE, "deterministic simulation: per-event invariant on CALL/PULL events")

add("C14", "K separate processes that differ only in the hash seed behind an LD_PRELOAD getrandom seam (every HashMap/HashSet iteration order in the process is a function of VERIF_HASH_SEED), plus two in-process repetitions with freshly built schemas; digests of (compiled query or error, row sequence, complete adapter event log) must be identical for valid queries, deliberately broken queries and deliberately broken schemas (one breaking mode per documented schema rule, several violations at once).", "The hash seed is taken to be the only per-process nondeterminism trustfall_core can observe (no clocks, threads or I/O in it); ASLR left on, uncontrolled. required_properties() order excluded (documented as unordered). Sampling.", "deterministic simulation: process-level hash seed behind a seam, seeded workloads, cross-process log diff", engine="hashsim")
add("C15", "Record -> persist -> lose the source -> replay: the workload runs through AdapterTap<SimAdapter> (lazy, or read-ahead inside next() below the tap); rows must equal the untapped run; the Trace is serialised to RON, deserialised and compared; replay from the deserialised trace alone must reproduce the rows (complete, and a cancelled row prefix with complete=false) while the simulated data source sees no event.", ENGINE_NOTE + " Prefetch inside the resolver call is excluded: TraceReaderAdapter cannot replay such traces by design; recordings are never cancelled (the replayer always asks for one row more than expected).", "deterministic simulation: recorded history (trace) replayed after dropping the data source; read-ahead schedules below the tap")
add("C22", "Workload biased to folds with count filters (all operators, boundary arguments, nested folds, count tags used in the same component, in later folds and in later folds' count filters) under random schedules; refinement against the reference model, which materialises every fold fully; and, model-free, three observation transforms (add a count output, add an output nested inside the fold, add a count tag plus a neutral use) must leave the original outputs and the row multiset unchanged.", MODEL_NOTE, "deterministic simulation: refinement against a full-materialisation model + observation transforms across independently drawn schedules")
add("C23", "Metamorphic relations applied only where sound, over property filters and over fold-count filters (add filter => subset; raise recursion depth => superset; make edge @optional => superset; parameterised edge == equivalent filter; '=' == one_of [x]; filter + exact negation partition the unfiltered rows; renaming outputs/tags; reordering sibling selections), original and transformed query each under an independently drawn schedule and hint subset, so the relation is checked across legal adapter behaviours.", ENGINE_NOTE + " The 'equivalent filter' relation uses the harness's own meaning of edge parameters (Eq/Min on a destination property).", "deterministic simulation: metamorphic relations between two independently scheduled runs")
add("C24", "Compile-time Send+Sync assertion for Schema, IndexedQuery, IRQuery, InterpretedQuery, FieldValue, Type, EdgeParameters; and Miri as the thread scheduler (one -Zmiri-seed = one repeatable interleaving, data-race and UB detection): cold variants: 2-3 threads from a barrier with cold statics parse (two schemas sharing all names) / compile / execute concurrently, then compile over one shared Arc<Schema>; hot variants: 3-4 threads execute six shared, never-executed Arc<IndexedQuery> at the same time with two argument sets and a dataset of their own each (the variant's focus query three extra times) (queries cover every filter family with variable and tag operands, folds, optional, recursion, coercion); results must equal a sequential recomputation.", "Few interleavings per minute (quick 20 seeds, thorough 192). Data races / UB are reported by the first seed that executes the racy code; a purely logical atomicity violation (no data race) needs a preemption inside its window and different values in flight on the threads, which is why every hot thread runs over its own dataset (seeded change C24-a: found within 16 seeds once that was in place, invisible in 352 seeds before). A change adding new shared state is seen by Miri, unlike with shimmed primitives.", "deterministic simulation: Miri-seeded thread schedules with race detection; compile-time bound check", engine="mirisim")
add("C25", "Fault enumeration: for each generated schema, every single contract violation (reorder by swap/rotate/reverse; non-null property, a neighbor, or a true coercion for a context without an active vertex) at every (resolver, type, field) site the checker reaches and at first/middle/last position is injected into an otherwise correct adapter, one per run of the real check_adapter_invariants; it must panic exactly when the fault fired, return for the fault-free adapter, and reach every documented site.", "Exhaustive per schema over the stated single-fault space; schemas sampled by seed. The faulty adapter records that it really emitted the illegal output (fired).", "deterministic simulation: complete single-fault enumeration per schema against the real invariant checker", category="fault_enumeration")

add("C20", "For each generated schema: (a) the real check_adapter_invariants must accept the real SchemaAdapter, and the engine is run over SchemaAdapter behind an order-preserving wrapper that reads ahead in tape-chosen chunks and injects contexts without an active vertex into every resolver input (answers for them must be null / no neighbors, in place); (b) three generated introspection queries over the meta-schema per schema; rows must equal the reference model evaluated on the harness's own dataset view of its schema AST (vertex types, interface flags, implements/implementer, properties and types, edges with targets, cardinalities, parameters and JSON defaults, entry points).", MODEL_NOTE + " Multisets with fold lists canonicalised: VertexType order is hash order and is not part of the claim. The meta-schema AST is a hand transcription of schema.graphql.", "deterministic simulation: perturbed input streams (read-ahead, injected vertex-less contexts) on the real SchemaAdapter + refinement against a model of the schema")

not_applicable = {
    "C06": "pure set algebra on two in-memory values (hints/candidates.rs): no party, schedule, fault or interleaving to simulate; input generation would be property-based testing, a different technique",
    "C07": "each filter operator is a pure function of two values (filtering.rs): nothing to schedule or fault; the C01 model carries an independent copy of the definitions but the exhaustive operand-pair claim is not made",
    "C08": "PartialEq/PartialOrd laws on FieldValue triples: pure function of inputs",
    "C10": "frontend::parse takes one complete in-memory string: no stream, partial read, cancellation or interleaving; a fuzzing target, not a simulation target",
    "C11": "structural IR invariants are a pure function of (schema, query text)",
    "C12": "argument validation is a pure function of (compiled query, argument map)",
    "C16": "serde / Display-parse round trips: pure",
    "C17": "lattice laws of Type: pure",
    "C18": "decoding a row into a struct: pure",
    "C19": "Schema::parse on a complete document: pure; fuzzing target",
    "C26": "stub generation followed by rustc: text-to-text function plus a compiler run; no runtime behaviour to schedule",
    "C27": "pyo3 boundary: the only interleaving (engine pulling a Python generator) is the protocol C02 decides on the Rust side; CPython/GIL cannot be put under a seeded scheduler here (Miri cannot cross FFI)",
}
NOT_BUILT = "claimed in DESIGN.md, check not built yet in this session (kept here until its check is registered)"
planned = ["C14", "C15", "C20", "C22", "C23", "C24", "C25"]

extra = {}
def load_extra():
    try:
        sys.path.insert(0, "/verif")
        import manifest_extra
        manifest_extra.register(add)
    except ImportError:
        pass
load_extra()

for p in planned:
    if p not in checks:
        not_applicable[p] = NOT_BUILT

manifest = {
    "version": 1,
    "setup_cmd": "./setup.sh",
    "hooks": {
        "guard": "none (no source hooks: every claimed property is reached through existing public seams)",
        "enable": "n/a: checks build /repo/trustfall_core unmodified as a cargo path dependency of /verif/sim (release profile with debug-assertions and overflow-checks on)",
        "baseline_off_cmd": "cd /repo && CARGO_NET_OFFLINE=true cargo test --workspace --no-fail-fast --offline",
        "source_commits": [],
        "add_only": True,
    },
    "engines": [
        {"name": "tfsim", "path": "/verif/sim", "serves_properties": sorted(k for k, v in checks.items() if v["engine"] == "tfsim"), "kind_free_text": TFSIM},
        {"name": "hashsim", "path": "/verif/sim/src/hashsim.rs + /verif/hashsim/getrandom_shim.c", "serves_properties": ["C14"], "kind_free_text": "worker processes of tfsim whose std hash seeds come from an LD_PRELOAD getrandom shim keyed by VERIF_HASH_SEED; driver diffs their logs"},
        {"name": "mirisim", "path": "/verif/mirisim (+ /verif/sendsync)", "serves_properties": ["C24"], "kind_free_text": "small threaded program over trustfall_core executed by Miri (cargo +nightly miri run -Zmiri-many-seeds), which owns the scheduler; plus a compile-time Send+Sync crate"},
    ],
    "checks": [checks[k] for k in sorted(checks)],
    "not_applicable": [{"property_id": k, "reason": v} for k, v in sorted(not_applicable.items())],
    "notes": "Genuine defects found are listed in known_findings.json (status known / fixed); repairs are the 'fix:' commits in /repo. See DESIGN.md section 7.",
}
json.dump(manifest, open("/verif/MANIFEST.json", "w"), indent=1)
print("checks:", sorted(checks), "not_applicable:", sorted(not_applicable))
