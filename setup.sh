#!/bin/bash
# Run once after a fresh restore, offline: builds the framework from files on disk only.
set -e
export CARGO_NET_OFFLINE=true
cd /verif/sim && cargo build --release --offline
echo "setup ok"
