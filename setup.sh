#!/bin/bash
# Run once after a fresh restore, offline: builds the framework from files on disk only.
set -e
export CARGO_NET_OFFLINE=true
mkdir -p /verif/target /verif/evidence /verif/replays
cd /verif/sim && cargo build --release --offline
gcc -shared -fPIC -O2 -o /verif/target/getrandom_shim.so /verif/hashsim/getrandom_shim.c
cd /verif/sendsync && cargo build --offline
cd /verif/mirisim && (cargo +nightly miri setup >/dev/null 2>&1 || true)
echo "setup ok"
